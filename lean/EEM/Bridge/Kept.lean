/-
  EEM.Bridge.Kept — lemmas for "the kept coefficients describe the curve the optimiser scored"
  (C12): exact values of the generated kernels on interior, ordered inputs.
-/
import EEM.Bridge.Curve
import EEM.Model.Refine

namespace EEM.Bridge.Kept
open EEM EEM.Model EEM.Model.Refine EEM.RealBridge EEM.Spec EEM.Bridge

/-- `fix_full_model_x` on ordered balance points that are not at the ends of the range: only the
smoothing of a zero slope is dropped -/
theorem fix_interior (hb βh kh cb βc kc c Tmin Tmax : ℝ) (ord : hb ≤ cb)
    (hin : hb ≠ cb → cb < Tmax ∧ Tmin < hb) :
    Gen.fix_full_model_x [hb, βh, kh, cb, βc, kc, c] Tmin Tmax
      = some [hb, βh, if βh = 0 then 0 else kh, cb, βc, if βc = 0 then 0 else kc, c] := by
  unfold Gen.fix_full_model_x
  have h1 : ¬ cb < hb := not_lt.mpr ord
  simp only [ltb_iff, neb_iff, geb_iff, leb_iff, eqb_iff, ofNat_eq, Nat.cast_zero, h1, if_false]
  by_cases he : hb = cb
  · subst he
    by_cases h2 : βh = 0 <;> by_cases h3 : βc = 0 <;> simp [h2, h3]
  · obtain ⟨h4, h5⟩ := hin he
    have h6 : ¬ Tmax ≤ cb := not_le.mpr h4
    have h7 : ¬ hb ≤ Tmin := not_le.mpr h5
    by_cases h2 : βh = 0 <;> by_cases h3 : βc = 0 <;> simp [he, h6, h7, h2, h3]

/-- limits of the fitted days: the segment limits lie strictly inside the range -/
structure Limits (Tmin Tmax Tmins Tmaxs : ℝ) : Prop where
  lo : Tmin < Tmins
  mid : Tmins ≤ Tmaxs
  hi : Tmaxs < Tmax

/-- the sub-model stored for a kept record -/
def sub (c : Coeffs ℝ) (Tmin Tmax Tmins Tmaxs : ℝ) : Submodel ℝ :=
  { coeffs := c, T_min := Tmin, T_max := Tmax, T_min_seg := Tmins, T_max_seg := Tmaxs, f_unc := 0 }

theorem keptSubmodel_of {key : Gen.ModelKey} {raw : List ℝ} {Tmin Tmax Tmins Tmaxs : ℝ} {c : Coeffs ℝ}
    (h : keptRecord key raw Tmin Tmax Tmins Tmaxs = some c) :
    keptSubmodel key raw Tmin Tmax Tmins Tmaxs = some (sub c Tmin Tmax Tmins Tmaxs) := by
  simp [keptSubmodel, h, sub]

/-- what has to be shown of a kept sub-model: it is evaluable, its effective vector obeys the sign
conventions, it is not the whole-range boundary case, and its curve is the scored one -/
def Reproduces (s : Submodel ℝ) (Tmax : ℝ) (xs : X) : Prop :=
  ∃ x, Effective s x ∧ NotWhole x Tmax ∧ ∀ T, curveR x T = curveR xs T

/-! ### what prediction reads back from each stored shape (interior, ordered) -/

theorem fullX_full5 (hb βh cb βc c Tmin Tmax Tmins Tmaxs : ℝ) (ord : hb ≤ cb)
    (hin : hb ≠ cb → cb < Tmax ∧ Tmin < hb) :
    Model.fullX (sub { model_type := .hdd_tidd_cdd, intercept := c, hdd_bp := some hb, hdd_beta := some βh,
                       cdd_bp := some cb, cdd_beta := some βc } Tmin Tmax Tmins Tmaxs)
      = some [hb, βh, 0, cb, βc, 0, c] := by
  have hfix := fix_interior hb βh 0 cb βc 0 c Tmin Tmax ord hin
  have e1 : (if βh = 0 then (0:ℝ) else 0) = 0 := by split <;> rfl
  have e2 : (if βc = 0 then (0:ℝ) else 0) = 0 := by split <;> rfl
  rw [e1, e2] at hfix
  simp [sub, Model.fullX, Coeffs.toNpArray, ModelType.key, Gen.get_full_model_x, hfix]

theorem fullX_c3_heat (bp β c Tmin Tmax Tmins Tmaxs : ℝ) (hβ : β < 0) (h1 : Tmins ≤ bp) (h2 : bp ≤ Tmaxs) :
    Model.fullX (sub { model_type := .hdd_tidd, intercept := c, hdd_bp := some bp, hdd_beta := some β }
                  Tmin Tmax Tmins Tmaxs)
      = some [bp, -β, 0, bp, 0, 0, c] := by
  have hfix := fix_interior bp (-β) 0 bp 0 0 c Tmin Tmax le_rfl (fun h => absurd rfl h)
  have e1 : (if -β = 0 then (0:ℝ) else 0) = 0 := by split <;> rfl
  rw [e1] at hfix
  simp only [if_true] at hfix
  simp [sub, Model.fullX, Coeffs.toNpArray, ModelType.key, Gen.get_full_model_x, hfix, hβ,
    not_lt.mpr h1, not_lt.mpr h2]

theorem fullX_c3_cool (bp β c Tmin Tmax Tmins Tmaxs : ℝ) (hβ : 0 < β) (h1 : Tmins ≤ bp) (h2 : bp ≤ Tmaxs) :
    Model.fullX (sub { model_type := .tidd_cdd, intercept := c, cdd_bp := some bp, cdd_beta := some β }
                  Tmin Tmax Tmins Tmaxs)
      = some [bp, 0, 0, bp, β, 0, c] := by
  have hfix := fix_interior bp 0 0 bp β 0 c Tmin Tmax le_rfl (fun h => absurd rfl h)
  have e1 : (if β = 0 then (0:ℝ) else 0) = 0 := by split <;> rfl
  rw [e1] at hfix
  simp only [if_true] at hfix
  simp [sub, Model.fullX, Coeffs.toNpArray, ModelType.key, Gen.get_full_model_x, hfix, not_lt.mpr hβ.le,
    not_lt.mpr h1, not_lt.mpr h2]

theorem fullX_c4_heat (bp β k c Tmin Tmax Tmins Tmaxs : ℝ) (hβ : β < 0) :
    Model.fullX (sub { model_type := .hdd_tidd_smooth, intercept := c, hdd_bp := some bp, hdd_beta := some β,
                       hdd_k := some k } Tmin Tmax Tmins Tmaxs)
      = some [bp, -β, k, bp, 0, 0, c] := by
  have hfix := fix_interior bp (-β) k bp 0 0 c Tmin Tmax le_rfl (fun h => absurd rfl h)
  have e1 : (if -β = 0 then (0:ℝ) else k) = k := by rw [if_neg]; linarith
  rw [e1] at hfix
  simp only [if_true] at hfix
  simp [sub, Model.fullX, Coeffs.toNpArray, ModelType.key, Gen.get_full_model_x, hfix, hβ]

theorem fullX_c4_cool (bp β k c Tmin Tmax Tmins Tmaxs : ℝ) (hβ : 0 < β) :
    Model.fullX (sub { model_type := .tidd_cdd_smooth, intercept := c, cdd_bp := some bp, cdd_beta := some β,
                       cdd_k := some k } Tmin Tmax Tmins Tmaxs)
      = some [bp, 0, 0, bp, β, k, c] := by
  have hfix := fix_interior bp 0 0 bp β k c Tmin Tmax le_rfl (fun h => absurd rfl h)
  have e1 : (if β = 0 then (0:ℝ) else k) = k := by rw [if_neg]; linarith
  rw [e1] at hfix
  simp only [if_true] at hfix
  simp [sub, Model.fullX, Coeffs.toNpArray, ModelType.key, Gen.get_full_model_x, hfix, not_lt.mpr hβ.le]

theorem fullX_tidd (c Tmin Tmax Tmins Tmaxs : ℝ) :
    Model.fullX (sub { model_type := .tidd, intercept := c } Tmin Tmax Tmins Tmaxs) = some [0, 0, 0, 0, 0, 0, c] := by
  have hfix := fix_interior 0 0 0 0 0 0 c Tmin Tmax le_rfl (fun h => absurd rfl h)
  simp only [if_true] at hfix
  simp [sub, Model.fullX, Coeffs.toNpArray, ModelType.key, Gen.get_full_model_x, hfix]

theorem fullX_full7 (hb βh pkh cb βc pkc c Tmin Tmax Tmins Tmaxs : ℝ) (ord : hb ≤ cb)
    (hin : hb ≠ cb → cb < Tmax ∧ Tmin < hb) (bh : βh ≠ 0) (bc : βc ≠ 0) (hb' hk cb' ck : ℝ)
    (hs : Gen.get_smooth_coeffs hb pkh cb pkc = [hb', hk, cb', ck]) :
    Model.fullX (sub { model_type := .hdd_tidd_cdd_smooth, intercept := c, hdd_bp := some hb, hdd_beta := some βh,
                       hdd_k := some pkh, cdd_bp := some cb, cdd_beta := some βc, cdd_k := some pkc }
                  Tmin Tmax Tmins Tmaxs)
      = some [hb', βh, hk, cb', βc, ck, c] := by
  have hfix := fix_interior hb βh pkh cb βc pkc c Tmin Tmax ord hin
  rw [if_neg bh, if_neg bc] at hfix
  simp [sub, Model.fullX, Coeffs.toNpArray, ModelType.key, Gen.get_full_model_x, hfix, hs]

/-- curves do not depend on the parameters of a side whose slope is zero -/
theorem curve_cool_irrelevant (hb βh kh cb kc cb' kc' c T : ℝ) :
    curveR ⟨hb, βh, kh, cb, 0, kc, c⟩ T = curveR ⟨hb, βh, kh, cb', 0, kc', c⟩ T := by
  simp [curveR, curve, cool, heat]

theorem curve_heat_irrelevant (hb kh hb' kh' cb βc kc c T : ℝ) :
    curveR ⟨hb, 0, kh, cb, βc, kc, c⟩ T = curveR ⟨hb', 0, kh', cb, βc, kc, c⟩ T := by
  simp [curveR, curve, cool, heat]

/-- the conclusion of C12's last clause for one optimiser outcome and one temperature -/
def KeptIsScored (key : Gen.ModelKey) (raw : List ℝ) (Tmin Tmax Tmins Tmaxs T : ℝ) : Prop :=
  ∃ s p v, keptSubmodel key raw Tmin Tmax Tmins Tmaxs = some s ∧ Model.predictSubmodel s T = some p
    ∧ scored key raw Tmin Tmax T = some v ∧ p.model = v
    ∧ s.T_max = Tmax ∧ ∃ x, Effective s x ∧ NotWhole x s.T_max

/-- closing lemma: the kept record reads back as `xk`, scoring evaluated `xs`, both obey the kernel's
sign conventions, and their curves coincide -/
theorem close_case {key : Gen.ModelKey} {raw : List ℝ} {Tmin Tmax Tmins Tmaxs : ℝ} {cf : Coeffs ℝ} {xk xs : X}
    (hk : keptRecord key raw Tmin Tmax Tmins Tmaxs = some cf)
    (hfx : Model.fullX (sub cf Tmin Tmax Tmins Tmaxs) = some [xk.hb, xk.βh, xk.kh, xk.cb, xk.βc, xk.kc, xk.c])
    (hint : xk.c = cf.intercept) (ak : KernelAdm xk Tmax) (as : KernelAdm xs Tmax)
    (hsx : scoredX key raw = some [xs.hb, xs.βh, xs.kh, xs.cb, xs.βc, xs.kc, xs.c])
    (hcurve : ∀ T, curveR xk T = curveR xs T) (T : ℝ) : KeptIsScored key raw Tmin Tmax Tmins Tmaxs T := by
  have heff : Effective (sub cf Tmin Tmax Tmins Tmaxs) xk :=
    ⟨hfx, ak.ord, ak.βh0, ak.βc0, ak.kh0, ak.kc0, hint⟩
  have hnw : NotWhole xk (sub cf Tmin Tmax Tmins Tmaxs).T_max := ak.notWhole
  refine ⟨_, _, curveR xs T, keptSubmodel_of hk, predict_refines heff hnw T, ?_, hcurve T, rfl, xk, heff, hnw⟩
  unfold scored
  rw [hsx]
  exact full_model_refines xs Tmin Tmax T as


/-! ### layout `hdd_tidd_cdd` (two linear slopes) -/

section two_linear
variable (hb βh cb βc c Tmin Tmax Tmins Tmaxs : ℝ) (L : Limits Tmin Tmax Tmins Tmaxs)
  (h1 : Tmins ≤ hb) (ord : hb ≤ cb) (h2 : cb ≤ Tmaxs)
include L h1 ord h2

theorem gfx_two_linear :
    Gen.get_full_model_x .hdd_tidd_cdd [hb, βh, cb, βc, c] Tmin Tmax Tmins Tmaxs = some [hb, βh, 0, cb, βc, 0, c] := by
  have hin : hb ≠ cb → cb < Tmax ∧ Tmin < hb := fun _ => ⟨by linarith [L.hi], by linarith [L.lo]⟩
  have hfix := fix_interior hb βh 0 cb βc 0 c Tmin Tmax ord hin
  have e1 : (if βh = 0 then (0:ℝ) else 0) = 0 := by split <;> rfl
  have e2 : (if βc = 0 then (0:ℝ) else 0) = 0 := by split <;> rfl
  rw [e1, e2] at hfix
  simp [Gen.get_full_model_x, hfix]

theorem two_linear_both (bh : 0 < βh) (bc : 0 < βc) (T : ℝ) :
    KeptIsScored .hdd_tidd_cdd [hb, βh, cb, βc, c] Tmin Tmax Tmins Tmaxs T := by
  have hin : hb ≠ cb → cb < Tmax ∧ Tmin < hb := fun _ => ⟨by linarith [L.hi], by linarith [L.lo]⟩
  have hk : keptRecord .hdd_tidd_cdd [hb, βh, cb, βc, c] Tmin Tmax Tmins Tmaxs
      = some { model_type := .hdd_tidd_cdd, intercept := c, hdd_bp := some hb, hdd_beta := some βh,
               cdd_bp := some cb, cdd_beta := some βc } := by
    unfold keptRecord
    rw [gfx_two_linear hb βh cb βc c Tmin Tmax Tmins Tmaxs L h1 ord h2]
    simp [reduceModel, fromNpArrays, bh.ne', bc.ne', not_lt.mpr ord]
  have adm : KernelAdm ⟨hb, βh, 0, cb, βc, 0, c⟩ Tmax :=
    ⟨ord, bh.le, bc.le, le_rfl, le_rfl, fun _ => by simp only; linarith [L.hi]⟩
  exact close_case (xk := ⟨hb, βh, 0, cb, βc, 0, c⟩) (xs := ⟨hb, βh, 0, cb, βc, 0, c⟩) hk
    (fullX_full5 hb βh cb βc c Tmin Tmax Tmins Tmaxs ord hin) rfl adm adm (by simp [scoredX]) (fun _ => rfl) T

theorem two_linear_heat_only (bh : 0 < βh) (T : ℝ) :
    KeptIsScored .hdd_tidd_cdd [hb, βh, cb, 0, c] Tmin Tmax Tmins Tmaxs T := by
  have hbm : hb ≤ Tmaxs := le_trans ord h2
  have hk : keptRecord .hdd_tidd_cdd [hb, βh, cb, 0, c] Tmin Tmax Tmins Tmaxs
      = some { model_type := .hdd_tidd, intercept := c, hdd_bp := some hb, hdd_beta := some (-βh) } := by
    unfold keptRecord
    rw [gfx_two_linear hb βh cb 0 c Tmin Tmax Tmins Tmaxs L h1 ord h2]
    by_cases he : Tmaxs ≤ hb
    · have : hb = Tmaxs := le_antisymm hbm he
      simp [reduceModel, fromNpArrays, bh.ne', he, this, bh]
    · simp [reduceModel, fromNpArrays, bh.ne', he, bh]
  have hfx := fullX_c3_heat hb (-βh) c Tmin Tmax Tmins Tmaxs (by linarith) h1 hbm
  rw [neg_neg] at hfx
  exact close_case (xk := ⟨hb, βh, 0, hb, 0, 0, c⟩) (xs := ⟨hb, βh, 0, cb, 0, 0, c⟩) hk hfx rfl
    ⟨le_rfl, bh.le, le_rfl, le_rfl, le_rfl, fun _ => by simp only; linarith [L.hi]⟩
    ⟨ord, bh.le, le_rfl, le_rfl, le_rfl, fun _ => by simp only; linarith [L.hi]⟩
    (by simp [scoredX]) (fun T => curve_cool_irrelevant hb βh 0 hb 0 cb 0 c T) T

theorem two_linear_cool_only (bc : 0 < βc) (T : ℝ) :
    KeptIsScored .hdd_tidd_cdd [hb, 0, cb, βc, c] Tmin Tmax Tmins Tmaxs T := by
  have hcm : Tmins ≤ cb := le_trans h1 ord
  have hk : keptRecord .hdd_tidd_cdd [hb, 0, cb, βc, c] Tmin Tmax Tmins Tmaxs
      = some { model_type := .tidd_cdd, intercept := c, cdd_bp := some cb, cdd_beta := some βc } := by
    unfold keptRecord
    rw [gfx_two_linear hb 0 cb βc c Tmin Tmax Tmins Tmaxs L h1 ord h2]
    by_cases he : cb ≤ Tmins
    · have : cb = Tmins := le_antisymm he hcm
      simp [reduceModel, fromNpArrays, bc.ne', he, this, not_lt.mpr bc.le]
    · simp [reduceModel, fromNpArrays, bc.ne', he, not_lt.mpr bc.le]
  have hfx := fullX_c3_cool cb βc c Tmin Tmax Tmins Tmaxs bc hcm h2
  exact close_case (xk := ⟨cb, 0, 0, cb, βc, 0, c⟩) (xs := ⟨hb, 0, 0, cb, βc, 0, c⟩) hk hfx rfl
    ⟨le_rfl, le_rfl, bc.le, le_rfl, le_rfl, fun _ => by simp only; linarith [L.hi]⟩
    ⟨ord, le_rfl, bc.le, le_rfl, le_rfl, fun _ => by simp only; linarith [L.hi]⟩
    (by simp [scoredX]) (fun T => curve_heat_irrelevant cb 0 hb 0 cb βc 0 c T) T

theorem two_linear_flat (hT0 : 0 < Tmax) (T : ℝ) :
    KeptIsScored .hdd_tidd_cdd [hb, 0, cb, 0, c] Tmin Tmax Tmins Tmaxs T := by
  have hk : keptRecord .hdd_tidd_cdd [hb, 0, cb, 0, c] Tmin Tmax Tmins Tmaxs
      = some { model_type := .tidd, intercept := c } := by
    unfold keptRecord
    rw [gfx_two_linear hb 0 cb 0 c Tmin Tmax Tmins Tmaxs L h1 ord h2]
    simp [reduceModel, fromNpArrays]
  have flat : ∀ (x y : X), x.βh = 0 → x.βc = 0 → y.βh = 0 → y.βc = 0 → x.c = y.c → ∀ T, curveR x T = curveR y T := by
    intro x y a b d e f T
    simp [curveR, curve, cool, heat, a, b, d, e, f]
  exact close_case (xk := ⟨0, 0, 0, 0, 0, 0, c⟩) (xs := ⟨hb, 0, 0, cb, 0, 0, c⟩) hk
    (fullX_tidd c Tmin Tmax Tmins Tmaxs) rfl
    ⟨le_rfl, le_rfl, le_rfl, le_rfl, le_rfl, fun _ => hT0⟩
    ⟨ord, le_rfl, le_rfl, le_rfl, le_rfl, fun _ => by simp only; linarith [L.hi]⟩
    (by simp [scoredX]) (flat _ _ rfl rfl rfl rfl rfl) T

end two_linear

/-! ### layouts `c_hdd_tidd` and `c_hdd_tidd_smooth` (one slope, sign-coded) and `tidd` -/

section one_slope
variable (bp β k c Tmin Tmax Tmins Tmaxs : ℝ) (L : Limits Tmin Tmax Tmins Tmaxs)
  (h1 : Tmins ≤ bp) (h2 : bp ≤ Tmaxs)
include L h1 h2

theorem one_linear_heat (hβ : β < 0) (T : ℝ) : KeptIsScored .c_hdd_tidd [bp, β, c] Tmin Tmax Tmins Tmaxs T := by
  have hfix := fix_interior bp (-β) 0 bp 0 0 c Tmin Tmax le_rfl (fun h => absurd rfl h)
  have e1 : (if -β = 0 then (0:ℝ) else 0) = 0 := by split <;> rfl
  rw [e1] at hfix
  simp only [if_true] at hfix
  have hk : keptRecord .c_hdd_tidd [bp, β, c] Tmin Tmax Tmins Tmaxs
      = some { model_type := .hdd_tidd, intercept := c, hdd_bp := some bp, hdd_beta := some β } := by
    unfold keptRecord
    simp only [Gen.get_full_model_x, ltb_iff, gtb_iff, ofNat_eq, Nat.cast_zero, not_lt.mpr h1, not_lt.mpr h2, hβ,
      if_true, if_false]
    simp only [show (Gen.ModelKey.c_hdd_tidd == Gen.ModelKey.hdd_tidd_cdd_smooth) = false from rfl,
      show (Gen.ModelKey.c_hdd_tidd == Gen.ModelKey.hdd_tidd_cdd) = false from rfl,
      show (Gen.ModelKey.c_hdd_tidd == Gen.ModelKey.c_hdd_tidd_smooth) = false from rfl,
      show (Gen.ModelKey.c_hdd_tidd == Gen.ModelKey.c_hdd_tidd) = true from rfl]
    simp only [Bool.false_eq_true, if_false, if_true, hfix]
    have hne : -β ≠ 0 := by linarith
    by_cases he : Tmaxs ≤ bp
    · have : bp = Tmaxs := le_antisymm h2 he
      simp [reduceModel, fromNpArrays, hne, this, hβ]
    · simp [reduceModel, fromNpArrays, hne, he, hβ]
  have adm : KernelAdm ⟨bp, -β, 0, bp, 0, 0, c⟩ Tmax :=
    ⟨le_rfl, by simp only; linarith, le_rfl, le_rfl, le_rfl, fun _ => by simp only; linarith [L.hi]⟩
  exact close_case (xk := ⟨bp, -β, 0, bp, 0, 0, c⟩) (xs := ⟨bp, -β, 0, bp, 0, 0, c⟩) hk
    (fullX_c3_heat bp β c Tmin Tmax Tmins Tmaxs hβ h1 h2) rfl adm adm (by simp [scoredX, hβ]) (fun _ => rfl) T

theorem one_linear_cool (hβ : 0 < β) (T : ℝ) : KeptIsScored .c_hdd_tidd [bp, β, c] Tmin Tmax Tmins Tmaxs T := by
  have hfix := fix_interior bp 0 0 bp β 0 c Tmin Tmax le_rfl (fun h => absurd rfl h)
  have e1 : (if β = 0 then (0:ℝ) else 0) = 0 := by split <;> rfl
  rw [e1] at hfix
  simp only [if_true] at hfix
  have hn : ¬ β < 0 := not_lt.mpr hβ.le
  have hk : keptRecord .c_hdd_tidd [bp, β, c] Tmin Tmax Tmins Tmaxs
      = some { model_type := .tidd_cdd, intercept := c, cdd_bp := some bp, cdd_beta := some β } := by
    unfold keptRecord
    have hg : Gen.get_full_model_x .c_hdd_tidd [bp, β, c] Tmin Tmax Tmins Tmaxs = some [bp, 0, 0, bp, β, 0, c] := by
      simp [Gen.get_full_model_x, not_lt.mpr h1, not_lt.mpr h2, hn, hfix]
    rw [hg]
    by_cases he : bp ≤ Tmins
    · have : bp = Tmins := le_antisymm he h1
      simp [reduceModel, fromNpArrays, hβ.ne', this, hn]
    · simp [reduceModel, fromNpArrays, hβ.ne', he, hn]
  have adm : KernelAdm ⟨bp, 0, 0, bp, β, 0, c⟩ Tmax :=
    ⟨le_rfl, le_rfl, hβ.le, le_rfl, le_rfl, fun _ => by simp only; linarith [L.hi]⟩
  exact close_case (xk := ⟨bp, 0, 0, bp, β, 0, c⟩) (xs := ⟨bp, 0, 0, bp, β, 0, c⟩) hk
    (fullX_c3_cool bp β c Tmin Tmax Tmins Tmaxs hβ h1 h2) rfl adm adm (by simp [scoredX, hn]) (fun _ => rfl) T

theorem one_linear_flat (hT0 : 0 < Tmax) (T : ℝ) : KeptIsScored .c_hdd_tidd [bp, 0, c] Tmin Tmax Tmins Tmaxs T := by
  have hfix := fix_interior bp 0 0 bp 0 0 c Tmin Tmax le_rfl (fun h => absurd rfl h)
  simp only [if_true] at hfix
  have hk : keptRecord .c_hdd_tidd [bp, 0, c] Tmin Tmax Tmins Tmaxs = some { model_type := .tidd, intercept := c } := by
    unfold keptRecord
    have hg : Gen.get_full_model_x .c_hdd_tidd [bp, 0, c] Tmin Tmax Tmins Tmaxs = some [bp, 0, 0, bp, 0, 0, c] := by
      simp [Gen.get_full_model_x, not_lt.mpr h1, not_lt.mpr h2, hfix]
    rw [hg]
    simp [reduceModel, fromNpArrays]
  exact close_case (xk := ⟨0, 0, 0, 0, 0, 0, c⟩) (xs := ⟨bp, 0, 0, bp, 0, 0, c⟩) hk
    (fullX_tidd c Tmin Tmax Tmins Tmaxs) rfl
    ⟨le_rfl, le_rfl, le_rfl, le_rfl, le_rfl, fun _ => hT0⟩
    ⟨le_rfl, le_rfl, le_rfl, le_rfl, le_rfl, fun _ => by simp only; linarith [L.hi]⟩
    (by simp [scoredX]) (fun T => by simp [curveR, curve, cool, heat]) T

theorem one_smooth_heat (hβ : β < 0) (hk0 : 0 ≤ k) (T : ℝ) :
    KeptIsScored .c_hdd_tidd_smooth [bp, β, k, c] Tmin Tmax Tmins Tmaxs T := by
  have hfix := fix_interior bp (-β) k bp 0 0 c Tmin Tmax le_rfl (fun h => absurd rfl h)
  have hne : -β ≠ 0 := by linarith
  rw [if_neg hne] at hfix
  simp only [if_true] at hfix
  have hg : Gen.get_full_model_x .c_hdd_tidd_smooth [bp, β, k, c] Tmin Tmax Tmins Tmaxs = some [bp, -β, k, bp, 0, 0, c] := by
    simp [Gen.get_full_model_x, hβ, hfix]
  have adm : KernelAdm ⟨bp, -β, k, bp, 0, 0, c⟩ Tmax :=
    ⟨le_rfl, by simp only; linarith, le_rfl, hk0, le_rfl, fun _ => by simp only; linarith [L.hi]⟩
  by_cases hkz : k = 0
  · subst hkz
    have hk : keptRecord .c_hdd_tidd_smooth [bp, β, 0, c] Tmin Tmax Tmins Tmaxs
        = some { model_type := .hdd_tidd, intercept := c, hdd_bp := some bp, hdd_beta := some β } := by
      unfold keptRecord
      rw [hg]
      by_cases he : Tmaxs ≤ bp
      · have : bp = Tmaxs := le_antisymm h2 he
        simp [reduceModel, fromNpArrays, hne, this, hβ]
      · simp [reduceModel, fromNpArrays, hne, he, hβ]
    exact close_case (xk := ⟨bp, -β, 0, bp, 0, 0, c⟩) (xs := ⟨bp, -β, 0, bp, 0, 0, c⟩) hk
      (fullX_c3_heat bp β c Tmin Tmax Tmins Tmaxs hβ h1 h2) rfl adm adm (by simp [scoredX, hβ]) (fun _ => rfl) T
  · have hk : keptRecord .c_hdd_tidd_smooth [bp, β, k, c] Tmin Tmax Tmins Tmaxs
        = some { model_type := .hdd_tidd_smooth, intercept := c, hdd_bp := some bp, hdd_beta := some β, hdd_k := some k } := by
      unfold keptRecord
      rw [hg]
      simp [reduceModel, fromNpArrays, hne, hkz, hβ]
    exact close_case (xk := ⟨bp, -β, k, bp, 0, 0, c⟩) (xs := ⟨bp, -β, k, bp, 0, 0, c⟩) hk
      (fullX_c4_heat bp β k c Tmin Tmax Tmins Tmaxs hβ) rfl adm adm (by simp [scoredX, hβ]) (fun _ => rfl) T

theorem one_smooth_cool (hβ : 0 < β) (hk0 : 0 ≤ k) (T : ℝ) :
    KeptIsScored .c_hdd_tidd_smooth [bp, β, k, c] Tmin Tmax Tmins Tmaxs T := by
  have hfix := fix_interior bp 0 0 bp β k c Tmin Tmax le_rfl (fun h => absurd rfl h)
  have hn : ¬ β < 0 := not_lt.mpr hβ.le
  rw [if_neg hβ.ne'] at hfix
  simp only [if_true] at hfix
  have hg : Gen.get_full_model_x .c_hdd_tidd_smooth [bp, β, k, c] Tmin Tmax Tmins Tmaxs = some [bp, 0, 0, bp, β, k, c] := by
    simp [Gen.get_full_model_x, hn, hfix]
  have adm : KernelAdm ⟨bp, 0, 0, bp, β, k, c⟩ Tmax :=
    ⟨le_rfl, le_rfl, hβ.le, le_rfl, hk0, fun _ => by simp only; linarith [L.hi]⟩
  by_cases hkz : k = 0
  · subst hkz
    have hk : keptRecord .c_hdd_tidd_smooth [bp, β, 0, c] Tmin Tmax Tmins Tmaxs
        = some { model_type := .tidd_cdd, intercept := c, cdd_bp := some bp, cdd_beta := some β } := by
      unfold keptRecord
      rw [hg]
      by_cases he : bp ≤ Tmins
      · have : bp = Tmins := le_antisymm he h1
        simp [reduceModel, fromNpArrays, hβ.ne', this, hn]
      · simp [reduceModel, fromNpArrays, hβ.ne', he, hn]
    exact close_case (xk := ⟨bp, 0, 0, bp, β, 0, c⟩) (xs := ⟨bp, 0, 0, bp, β, 0, c⟩) hk
      (fullX_c3_cool bp β c Tmin Tmax Tmins Tmaxs hβ h1 h2) rfl adm adm (by simp [scoredX, hn]) (fun _ => rfl) T
  · have hk : keptRecord .c_hdd_tidd_smooth [bp, β, k, c] Tmin Tmax Tmins Tmaxs
        = some { model_type := .tidd_cdd_smooth, intercept := c, cdd_bp := some bp, cdd_beta := some β, cdd_k := some k } := by
      unfold keptRecord
      rw [hg]
      simp [reduceModel, fromNpArrays, hβ.ne', hkz, hn]
    exact close_case (xk := ⟨bp, 0, 0, bp, β, k, c⟩) (xs := ⟨bp, 0, 0, bp, β, k, c⟩) hk
      (fullX_c4_cool bp β k c Tmin Tmax Tmins Tmaxs hβ) rfl adm adm (by simp [scoredX, hn]) (fun _ => rfl) T

theorem one_smooth_flat (hT0 : 0 < Tmax) (hkk : 0 ≤ k) (T : ℝ) :
    KeptIsScored .c_hdd_tidd_smooth [bp, 0, k, c] Tmin Tmax Tmins Tmaxs T := by
  have hfix := fix_interior bp 0 0 bp 0 k c Tmin Tmax le_rfl (fun h => absurd rfl h)
  simp only [if_true] at hfix
  have hk : keptRecord .c_hdd_tidd_smooth [bp, 0, k, c] Tmin Tmax Tmins Tmaxs = some { model_type := .tidd, intercept := c } := by
    unfold keptRecord
    have hg : Gen.get_full_model_x .c_hdd_tidd_smooth [bp, 0, k, c] Tmin Tmax Tmins Tmaxs = some [bp, 0, 0, bp, 0, 0, c] := by
      simp [Gen.get_full_model_x, hfix]
    rw [hg]
    simp [reduceModel, fromNpArrays]
  exact close_case (xk := ⟨0, 0, 0, 0, 0, 0, c⟩) (xs := ⟨bp, 0, 0, bp, 0, k, c⟩) hk
    (fullX_tidd c Tmin Tmax Tmins Tmaxs) rfl
    ⟨le_rfl, le_rfl, le_rfl, le_rfl, le_rfl, fun _ => hT0⟩
    ⟨le_rfl, le_rfl, le_rfl, le_rfl, hkk, fun _ => by simp only; linarith [L.hi]⟩
    (by simp [scoredX]) (fun T => by simp [curveR, curve, cool, heat]) T

end one_slope

theorem tidd_case (c Tmin Tmax Tmins Tmaxs : ℝ) (hT0 : 0 < Tmax) (T : ℝ) :
    KeptIsScored .tidd [c] Tmin Tmax Tmins Tmaxs T := by
  have hfix := fix_interior 0 0 0 0 0 0 c Tmin Tmax le_rfl (fun h => absurd rfl h)
  simp only [if_true] at hfix
  have hk : keptRecord .tidd [c] Tmin Tmax Tmins Tmaxs = some { model_type := .tidd, intercept := c } := by
    unfold keptRecord
    have hg : Gen.get_full_model_x .tidd [c] Tmin Tmax Tmins Tmaxs = some [0, 0, 0, 0, 0, 0, c] := by
      simp [Gen.get_full_model_x, hfix]
    rw [hg]
    simp [reduceModel, fromNpArrays]
  have adm : KernelAdm ⟨0, 0, 0, 0, 0, 0, c⟩ Tmax := ⟨le_rfl, le_rfl, le_rfl, le_rfl, le_rfl, fun _ => hT0⟩
  exact close_case (xk := ⟨0, 0, 0, 0, 0, 0, c⟩) (xs := ⟨0, 0, 0, 0, 0, 0, c⟩) hk
    (fullX_tidd c Tmin Tmax Tmins Tmaxs) rfl adm adm (by simp [scoredX]) (fun _ => rfl) T

/-! ### layout `hdd_tidd_cdd_smooth` (two slopes with smoothing fractions) -/

theorem smooth_zero (hb cb : ℝ) : Gen.get_smooth_coeffs hb 0 cb 0 = [hb, 0, cb, 0] := by
  unfold Gen.get_smooth_coeffs
  simp only [ltb_iff, arith_ofSci, Bool.and_eq_true]
  rw [if_pos]
  · simp
  · constructor <;> norm_num

section two_smooth
variable (hb βh pkh cb βc pkc c Tmin Tmax Tmins Tmaxs : ℝ) (L : Limits Tmin Tmax Tmins Tmaxs)
  (h1 : Tmins ≤ hb) (ord : hb ≤ cb) (h2 : cb ≤ Tmaxs) (p0 : 0 ≤ pkh) (q0 : 0 ≤ pkc)
include L h1 ord h2 p0 q0

theorem gfx_two_smooth :
    Gen.get_full_model_x .hdd_tidd_cdd_smooth [hb, βh, pkh, cb, βc, pkc, c] Tmin Tmax Tmins Tmaxs
      = some [hb, βh, if βh = 0 then 0 else pkh, cb, βc, if βc = 0 then 0 else pkc, c] := by
  have hin : hb ≠ cb → cb < Tmax ∧ Tmin < hb := fun _ => ⟨by linarith [L.hi], by linarith [L.lo]⟩
  have hfix := fix_interior hb βh pkh cb βc pkc c Tmin Tmax ord hin
  simp [Gen.get_full_model_x, hfix]

theorem two_smooth_both (bh : 0 < βh) (bc : 0 < βc) (T : ℝ) :
    KeptIsScored .hdd_tidd_cdd_smooth [hb, βh, pkh, cb, βc, pkc, c] Tmin Tmax Tmins Tmaxs T := by
  have hin : hb ≠ cb → cb < Tmax ∧ Tmin < hb := fun _ => ⟨by linarith [L.hi], by linarith [L.lo]⟩
  have hg := gfx_two_smooth hb βh pkh cb βc pkc c Tmin Tmax Tmins Tmaxs L h1 ord h2 p0 q0
  rw [if_neg bh.ne', if_neg bc.ne'] at hg
  by_cases hz : pkc ≠ 0 ∨ pkh ≠ 0
  · obtain ⟨hb', kh, cb', kc, hs, ord', kh0, kc0, _, e2⟩ := smooth_spec hb pkh cb pkc ord p0 q0
    have hk : keptRecord .hdd_tidd_cdd_smooth [hb, βh, pkh, cb, βc, pkc, c] Tmin Tmax Tmins Tmaxs
        = some { model_type := .hdd_tidd_cdd_smooth, intercept := c, hdd_bp := some hb, hdd_beta := some βh,
                 hdd_k := some pkh, cdd_bp := some cb, cdd_beta := some βc, cdd_k := some pkc } := by
      unfold keptRecord
      rw [hg]
      simp [reduceModel, fromNpArrays, bh.ne', bc.ne', hz, not_lt.mpr ord]
    have adm : KernelAdm ⟨hb', βh, kh, cb', βc, kc, c⟩ Tmax :=
      ⟨ord', bh.le, bc.le, kh0, kc0, fun _ => by simp only; rw [e2]; linarith [L.hi]⟩
    exact close_case (xk := ⟨hb', βh, kh, cb', βc, kc, c⟩) (xs := ⟨hb', βh, kh, cb', βc, kc, c⟩) hk
      (fullX_full7 hb βh pkh cb βc pkc c Tmin Tmax Tmins Tmaxs ord hin bh.ne' bc.ne' hb' kh cb' kc hs) rfl adm adm
      (by simp [scoredX, hs]) (fun _ => rfl) T
  · have hz' : pkc = 0 ∧ pkh = 0 := by
      constructor <;> by_contra h <;> exact hz (by simp [h])
    obtain ⟨rfl, rfl⟩ := hz'
    have hk : keptRecord .hdd_tidd_cdd_smooth [hb, βh, 0, cb, βc, 0, c] Tmin Tmax Tmins Tmaxs
        = some { model_type := .hdd_tidd_cdd, intercept := c, hdd_bp := some hb, hdd_beta := some βh,
                 cdd_bp := some cb, cdd_beta := some βc } := by
      unfold keptRecord
      rw [hg]
      simp [reduceModel, fromNpArrays, bh.ne', bc.ne', not_lt.mpr ord]
    have adm : KernelAdm ⟨hb, βh, 0, cb, βc, 0, c⟩ Tmax :=
      ⟨ord, bh.le, bc.le, le_rfl, le_rfl, fun _ => by simp only; linarith [L.hi]⟩
    exact close_case (xk := ⟨hb, βh, 0, cb, βc, 0, c⟩) (xs := ⟨hb, βh, 0, cb, βc, 0, c⟩) hk
      (fullX_full5 hb βh cb βc c Tmin Tmax Tmins Tmaxs ord hin) rfl adm adm
      (by simp [scoredX, smooth_zero]) (fun _ => rfl) T

theorem two_smooth_flat (hT0 : 0 < Tmax) (T : ℝ) :
    KeptIsScored .hdd_tidd_cdd_smooth [hb, 0, pkh, cb, 0, pkc, c] Tmin Tmax Tmins Tmaxs T := by
  have hg := gfx_two_smooth hb 0 pkh cb 0 pkc c Tmin Tmax Tmins Tmaxs L h1 ord h2 p0 q0
  simp only [if_true] at hg
  obtain ⟨hb', kh, cb', kc, hs, ord', kh0, kc0, _, e2⟩ := smooth_spec hb pkh cb pkc ord p0 q0
  have hk : keptRecord .hdd_tidd_cdd_smooth [hb, 0, pkh, cb, 0, pkc, c] Tmin Tmax Tmins Tmaxs
      = some { model_type := .tidd, intercept := c } := by
    unfold keptRecord
    rw [hg]
    simp [reduceModel, fromNpArrays]
  exact close_case (xk := ⟨0, 0, 0, 0, 0, 0, c⟩) (xs := ⟨hb', 0, kh, cb', 0, kc, c⟩) hk
    (fullX_tidd c Tmin Tmax Tmins Tmaxs) rfl
    ⟨le_rfl, le_rfl, le_rfl, le_rfl, le_rfl, fun _ => hT0⟩
    ⟨ord', le_rfl, le_rfl, kh0, kc0, fun _ => by simp only; rw [e2]; linarith [L.hi]⟩
    (by simp [scoredX, hs]) (fun T => by simp [curveR, curve, cool, heat]) T

/-- one slope ends at zero and its side carries no smoothing fraction (the complement of finding
C12-F1); the other balance point is strictly inside the segment (the complement of C12-F3) -/
theorem two_smooth_heat_only (bh : 0 < βh) (hbs : hb < Tmaxs) (hcs : Tmins < cb) (T : ℝ) :
    KeptIsScored .hdd_tidd_cdd_smooth [hb, βh, pkh, cb, 0, 0, c] Tmin Tmax Tmins Tmaxs T := by
  have hg := gfx_two_smooth hb βh pkh cb 0 0 c Tmin Tmax Tmins Tmaxs L h1 ord h2 p0 le_rfl
  rw [if_neg bh.ne'] at hg
  simp only [if_true] at hg
  obtain ⟨hb2, hk2, cb2, ck2, hs, ord', kh0, kc0, e1, e2⟩ := smooth_spec hb pkh cb 0 ord p0 le_rfl
  have hb2T : hb2 < Tmax := by rw [e2] at ord'; linarith [L.hi]
  have hne : -βh ≠ 0 := by linarith
  have hneg : -βh < 0 := by linarith
  have hgk : getK hb pkh cb 0 Tmins Tmaxs = some [hb2, hk2, cb2, ck2] := by
    unfold getK
    rw [hs]
    simp [not_le.mpr hbs, not_le.mpr hcs]
  by_cases hp : pkh = 0
  · subst hp
    rw [smooth_zero] at hs
    simp only [List.cons.injEq, and_true] at hs
    obtain ⟨rfl, rfl, rfl, rfl⟩ := hs
    have hk : keptRecord .hdd_tidd_cdd_smooth [hb, βh, 0, cb, 0, 0, c] Tmin Tmax Tmins Tmaxs
        = some { model_type := .hdd_tidd, intercept := c, hdd_bp := some hb, hdd_beta := some (-βh) } := by
      unfold keptRecord
      rw [hg]
      simp [reduceModel, fromNpArrays, bh.ne', not_le.mpr hbs, hneg]
    have hfx := fullX_c3_heat hb (-βh) c Tmin Tmax Tmins Tmaxs hneg h1 hbs.le
    rw [neg_neg] at hfx
    exact close_case (xk := ⟨hb, βh, 0, hb, 0, 0, c⟩) (xs := ⟨hb, βh, 0, cb, 0, 0, c⟩) hk hfx rfl
      ⟨le_rfl, bh.le, le_rfl, le_rfl, le_rfl, fun _ => by simp only; linarith [L.hi]⟩
      ⟨ord, bh.le, le_rfl, le_rfl, le_rfl, fun _ => by simp only; linarith [L.hi]⟩
      (by simp [scoredX, smooth_zero]) (fun T => curve_cool_irrelevant hb βh 0 hb 0 cb 0 c T) T
  · by_cases hz : hk2 = 0 ∧ ck2 = 0
    · obtain ⟨rfl, rfl⟩ := hz
      have hb2e : hb2 = hb := by rw [e1]; ring
      have hk : keptRecord .hdd_tidd_cdd_smooth [hb, βh, pkh, cb, 0, 0, c] Tmin Tmax Tmins Tmaxs
          = some { model_type := .hdd_tidd, intercept := c, hdd_bp := some hb2, hdd_beta := some (-βh) } := by
        unfold keptRecord
        rw [hg]
        simp [reduceModel, fromNpArrays, bh.ne', hp, hgk, hb2e, not_le.mpr hbs, hneg]
      have hfx := fullX_c3_heat hb2 (-βh) c Tmin Tmax Tmins Tmaxs hneg (by rw [hb2e]; exact h1) (by rw [hb2e]; exact hbs.le)
      rw [neg_neg] at hfx
      exact close_case (xk := ⟨hb2, βh, 0, hb2, 0, 0, c⟩) (xs := ⟨hb2, βh, 0, cb2, 0, 0, c⟩) hk hfx rfl
        ⟨le_rfl, bh.le, le_rfl, le_rfl, le_rfl, fun _ => hb2T⟩
        ⟨ord', bh.le, le_rfl, le_rfl, le_rfl, fun h => by simp only at h ⊢; rw [← h]; exact hb2T⟩
        (by simp [scoredX, hs]) (fun T => curve_cool_irrelevant hb2 βh 0 hb2 0 cb2 0 c T) T
    · have hk : keptRecord .hdd_tidd_cdd_smooth [hb, βh, pkh, cb, 0, 0, c] Tmin Tmax Tmins Tmaxs
          = some { model_type := .hdd_tidd_smooth, intercept := c, hdd_bp := some hb2, hdd_beta := some (-βh),
                   hdd_k := some hk2 } := by
        unfold keptRecord
        rw [hg]
        have hz' : ¬ (hk2 = 0 ∧ ck2 = 0) := hz
        simp [reduceModel, fromNpArrays, bh.ne', hp, hgk, hz', hneg]
      have hfx := fullX_c4_heat hb2 (-βh) hk2 c Tmin Tmax Tmins Tmaxs hneg
      rw [neg_neg] at hfx
      exact close_case (xk := ⟨hb2, βh, hk2, hb2, 0, 0, c⟩) (xs := ⟨hb2, βh, hk2, cb2, 0, ck2, c⟩) hk hfx rfl
        ⟨le_rfl, bh.le, le_rfl, kh0, le_rfl, fun _ => hb2T⟩
        ⟨ord', bh.le, le_rfl, kh0, kc0, fun h => by simp only at h ⊢; rw [← h]; exact hb2T⟩
        (by simp [scoredX, hs]) (fun T => curve_cool_irrelevant hb2 βh hk2 hb2 0 cb2 ck2 c T) T

theorem two_smooth_cool_only (bc : 0 < βc) (hbs : hb < Tmaxs) (hcs : Tmins < cb) (T : ℝ) :
    KeptIsScored .hdd_tidd_cdd_smooth [hb, 0, 0, cb, βc, pkc, c] Tmin Tmax Tmins Tmaxs T := by
  have hg := gfx_two_smooth hb 0 0 cb βc pkc c Tmin Tmax Tmins Tmaxs L h1 ord h2 le_rfl q0
  rw [if_neg bc.ne'] at hg
  simp only [if_true] at hg
  obtain ⟨hb2, hk2, cb2, ck2, hs, ord', kh0, kc0, e1, e2⟩ := smooth_spec hb 0 cb pkc ord le_rfl q0
  have hcb2 : cb2 < Tmax := by rw [e2]; linarith [L.hi]
  have hn : ¬ βc < 0 := not_lt.mpr bc.le
  have hgk : getK hb 0 cb pkc Tmins Tmaxs = some [hb2, hk2, cb2, ck2] := by
    unfold getK
    rw [hs]
    simp [not_le.mpr hbs, not_le.mpr hcs]
  by_cases hp : pkc = 0
  · subst hp
    rw [smooth_zero] at hs
    simp only [List.cons.injEq, and_true] at hs
    obtain ⟨rfl, rfl, rfl, rfl⟩ := hs
    have hk : keptRecord .hdd_tidd_cdd_smooth [hb, 0, 0, cb, βc, 0, c] Tmin Tmax Tmins Tmaxs
        = some { model_type := .tidd_cdd, intercept := c, cdd_bp := some cb, cdd_beta := some βc } := by
      unfold keptRecord
      rw [hg]
      simp [reduceModel, fromNpArrays, bc.ne', not_le.mpr hcs, hn]
    exact close_case (xk := ⟨cb, 0, 0, cb, βc, 0, c⟩) (xs := ⟨hb, 0, 0, cb, βc, 0, c⟩) hk
      (fullX_c3_cool cb βc c Tmin Tmax Tmins Tmaxs bc hcs.le h2) rfl
      ⟨le_rfl, le_rfl, bc.le, le_rfl, le_rfl, fun _ => by simp only; linarith [L.hi]⟩
      ⟨ord, le_rfl, bc.le, le_rfl, le_rfl, fun _ => by simp only; linarith [L.hi]⟩
      (by simp [scoredX, smooth_zero]) (fun T => curve_heat_irrelevant cb 0 hb 0 cb βc 0 c T) T
  · by_cases hz : hk2 = 0 ∧ ck2 = 0
    · obtain ⟨rfl, rfl⟩ := hz
      have hcb2e : cb2 = cb := by rw [e2]; ring
      have hk : keptRecord .hdd_tidd_cdd_smooth [hb, 0, 0, cb, βc, pkc, c] Tmin Tmax Tmins Tmaxs
          = some { model_type := .tidd_cdd, intercept := c, cdd_bp := some cb2, cdd_beta := some βc } := by
        unfold keptRecord
        rw [hg]
        simp [reduceModel, fromNpArrays, bc.ne', hp, hgk, hcb2e, not_le.mpr hcs, hn]
      exact close_case (xk := ⟨cb2, 0, 0, cb2, βc, 0, c⟩) (xs := ⟨hb2, 0, 0, cb2, βc, 0, c⟩) hk
        (fullX_c3_cool cb2 βc c Tmin Tmax Tmins Tmaxs bc (by rw [hcb2e]; exact hcs.le) (by rw [hcb2e]; exact h2)) rfl
        ⟨le_rfl, le_rfl, bc.le, le_rfl, le_rfl, fun _ => hcb2⟩
        ⟨ord', le_rfl, bc.le, le_rfl, le_rfl, fun _ => hcb2⟩
        (by simp [scoredX, hs]) (fun T => curve_heat_irrelevant cb2 0 hb2 0 cb2 βc 0 c T) T
    · have hk : keptRecord .hdd_tidd_cdd_smooth [hb, 0, 0, cb, βc, pkc, c] Tmin Tmax Tmins Tmaxs
          = some { model_type := .tidd_cdd_smooth, intercept := c, cdd_bp := some cb2, cdd_beta := some βc,
                   cdd_k := some ck2 } := by
        unfold keptRecord
        rw [hg]
        have hz' : ¬ (hk2 = 0 ∧ ck2 = 0) := hz
        simp [reduceModel, fromNpArrays, bc.ne', hp, hgk, hz', hn]
      exact close_case (xk := ⟨cb2, 0, 0, cb2, βc, ck2, c⟩) (xs := ⟨hb2, 0, hk2, cb2, βc, ck2, c⟩) hk
        (fullX_c4_cool cb2 βc ck2 c Tmin Tmax Tmins Tmaxs bc) rfl
        ⟨le_rfl, le_rfl, bc.le, le_rfl, kc0, fun _ => hcb2⟩
        ⟨ord', le_rfl, bc.le, kh0, kc0, fun _ => hcb2⟩
        (by simp [scoredX, hs]) (fun T => curve_heat_irrelevant cb2 0 hb2 hk2 cb2 βc ck2 c T) T

end two_smooth

end EEM.Bridge.Kept
