/-
  EEM.Bridge.ResampleRefine — the minute-grid algorithm of `as_freq` (`EEM.Model.ResampleMin`) refines the
  closed interval-overlap form (`EEM.Model.Resample`): per day, the sum of the spread minute values is `daySum`
  and the number of minutes that carry a value is `dayCovered`.
-/
import EEM.Model.ResampleMin
import Mathlib.Tactic.Linarith
import Mathlib.Tactic.Ring
import Mathlib.Tactic.FieldSimp
import Mathlib.Algebra.Order.Field.Rat
import Mathlib.Algebra.BigOperators.Group.List.Basic

namespace EEM.Bridge.ResampleRefine
open EEM.Model.Resample EEM.Model.ResampleMin

def inP (p : Period) (m : Int) : Bool := decide (p.t0 ≤ m ∧ m < p.t1)

/-- **counting lemma**: the minutes of `[d0, d0+n)` that lie in `[t0, t1)` are `overlap` many -/
theorem count_in (t0 t1 : Int) : ∀ (n : Nat) (d0 : Int),
    (((minutesFrom d0 n).filter fun m => decide (t0 ≤ m ∧ m < t1)).length : Int) = overlap d0 (d0 + n) t0 t1 := by
  intro n
  induction n with
  | zero => intro d0; simp [minutesFrom, overlap]
  | succ k ih =>
    intro d0
    have h := ih (d0 + 1)
    simp only [minutesFrom, List.filter_cons]
    unfold overlap at h ⊢
    by_cases hc : t0 ≤ d0 ∧ d0 < t1
    · simp only [hc, and_self, decide_true, if_true, List.length_cons]
      push_cast
      rw [h]
      omega
    · simp only [hc, decide_false, Bool.false_eq_true, if_false]
      rw [h]
      push_cast
      omega

/-- a minute inside `p` is in no later period of a chained list -/
theorem valAt_none_of_before (f : Period → Option Rat) (rest : List Period) (b m : Int) (hb : ∀ q ∈ rest, b ≤ q.t0) (hm : m < b) :
    valAt f rest m = none := by
  induction rest with
  | nil => rfl
  | cons q qs ih =>
    have hq := hb q (by simp)
    have : ¬ (q.t0 ≤ m ∧ m < q.t1) := by omega
    simp only [valAt, this, if_false]
    exact ih (fun r hr => hb r (List.mem_cons_of_mem _ hr))

/-- sum over the minutes of one more period in front -/
theorem sum_cons (f : Period → Option Rat) (p : Period) (rest : List Period) (hrest : ∀ q ∈ rest, p.t1 ≤ q.t0) :
    ∀ (n : Nat) (d0 : Int),
    ((minutesFrom d0 n).map fun m => (valAt f (p :: rest) m).getD 0).sum =
      (((minutesFrom d0 n).filter (inP p)).length : Rat) * ((f p).getD 0)
      + ((minutesFrom d0 n).map fun m => (valAt f rest m).getD 0).sum := by
  intro n
  induction n with
  | zero => intro d0; simp [minutesFrom]
  | succ k ih =>
    intro d0
    simp only [minutesFrom, List.map_cons, List.sum_cons, List.filter_cons, ih (d0 + 1)]
    by_cases hc : p.t0 ≤ d0 ∧ d0 < p.t1
    · have hnone := valAt_none_of_before f rest p.t1 d0 hrest hc.2
      simp only [valAt, hc, and_self, if_true, inP, decide_true, List.length_cons, hnone, Option.getD_none]
      push_cast
      ring
    · simp only [valAt, hc, if_false, inP, decide_false, Bool.false_eq_true]
      ring

/-- count over the minutes of one more period in front -/
theorem count_cons (f : Period → Option Rat) (p : Period) (rest : List Period) (hrest : ∀ q ∈ rest, p.t1 ≤ q.t0) :
    ∀ (n : Nat) (d0 : Int),
    ((minutesFrom d0 n).filter fun m => (valAt f (p :: rest) m).isSome).length =
      (if (f p).isSome then ((minutesFrom d0 n).filter (inP p)).length else 0)
      + ((minutesFrom d0 n).filter fun m => (valAt f rest m).isSome).length := by
  intro n
  induction n with
  | zero => intro d0; simp [minutesFrom]
  | succ k ih =>
    intro d0
    have h := ih (d0 + 1)
    by_cases hc : p.t0 ≤ d0 ∧ d0 < p.t1
    · have hnone := valAt_none_of_before f rest p.t1 d0 hrest hc.2
      have hin : inP p d0 = true := by simp [inP, hc]
      have hhead : (valAt f (p :: rest) d0).isSome = (f p).isSome := by
        simp only [valAt, hc, and_self, if_true]
      simp only [minutesFrom, List.filter_cons, hhead, hin, hnone, if_true, Option.isSome_none, Bool.false_eq_true, if_false]
      cases hv : f p
      · simp only [hv, Option.isSome_none, Bool.false_eq_true, if_false] at h ⊢
        exact h
      · simp only [hv, Option.isSome_some, if_true, List.length_cons] at h ⊢
        omega
    · have hin : inP p d0 = false := by simp [inP, hc]
      have hhead : (valAt f (p :: rest) d0).isSome = (valAt f rest d0).isSome := by
        simp only [valAt, hc, if_false]
      simp only [minutesFrom, List.filter_cons, hhead, hin, Bool.false_eq_true, if_false]
      by_cases hr : (valAt f rest d0).isSome = true
      · simp only [hr, if_true, List.length_cons]
        omega
      · simp only [hr, Bool.false_eq_true, if_false]
        exact h


theorem inP_filter_eq (p : Period) (l : List Int) :
    l.filter (inP p) = l.filter fun m => decide (p.t0 ≤ m ∧ m < p.t1) := rfl

/-- general form: summing what the minutes carry is `Σ f(p) · overlap(p)` -/
theorem valSum_eq (f : Period → Option Rat) : ∀ (ps : List Period), Chained ps → ∀ (n : Nat) (d0 : Int),
    ((minutesFrom d0 n).map fun m => (valAt f ps m).getD 0).sum =
      (ps.map fun p => (f p).getD 0 * ((overlap d0 (d0 + n) p.t0 p.t1 : Int) : Rat)).sum := by
  intro ps
  induction ps with
  | nil => intro _ n d0; simp [valAt]
  | cons p rest ih =>
    intro hch n d0
    obtain ⟨hlt, hrest, hch'⟩ := hch
    rw [sum_cons f p rest hrest n d0, ih hch' n d0]
    simp only [List.map_cons, List.sum_cons]
    congr 1
    have hc := count_in p.t0 p.t1 n d0
    rw [← inP_filter_eq] at hc
    have : (((minutesFrom d0 n).filter (inP p)).length : Rat) = ((overlap d0 (d0 + n) p.t0 p.t1 : Int) : Rat) := by
      exact_mod_cast hc
    rw [this]
    ring

/-- general form: the minutes that carry a value are `Σ [f(p) present] · overlap(p)` -/
theorem valCount_eq (f : Period → Option Rat) (hf : ∀ p, (f p).isSome = p.v.isSome) :
    ∀ (ps : List Period), Chained ps → ∀ (n : Nat) (d0 : Int),
    ((((minutesFrom d0 n).filter fun m => (valAt f ps m).isSome).length : Nat) : Int) = dayCovered ps d0 (d0 + n) := by
  intro ps
  induction ps with
  | nil => intro _ n d0; simp [valAt, dayCovered]
  | cons p rest ih =>
    intro hch n d0
    obtain ⟨hlt, hrest, hch'⟩ := hch
    rw [count_cons f p rest hrest n d0]
    push_cast
    rw [ih hch' n d0]
    unfold dayCovered
    simp only [List.map_cons, List.sum_cons]
    congr 1
    have hc := count_in p.t0 p.t1 n d0
    rw [← inP_filter_eq] at hc
    unfold covered
    rw [hf p]
    cases hv : p.v with
    | none => simp
    | some v => simpa using hc

theorem spread_isSome (p : Period) : (spread p).isSome = p.v.isSome := by
  unfold spread; cases p.v <;> rfl

/-- **the minute sums are the interval-overlap shares**: for readings in time order, summing the spread minute values of
the day `[d0, d0+n)` gives `daySum` -/
theorem daySumMin_eq (ps : List Period) (hch : Chained ps) (n : Nat) (d0 : Int) :
    ((minutesFrom d0 n).map fun m => (rateAt ps m).getD 0).sum = daySum ps d0 (d0 + n) := by
  unfold rateAt
  rw [valSum_eq spread ps hch n d0]
  unfold daySum
  congr 1
  apply List.map_congr_left
  intro p _
  unfold share spread
  cases hv : p.v with
  | none => simp
  | some v => simp only [Option.map_some, Option.getD_some]; ring

/-- **the minute counts are the covered minutes** -/
theorem dayCountMin_eq (ps : List Period) (hch : Chained ps) (n : Nat) (d0 : Int) :
    ((((minutesFrom d0 n).filter fun m => (rateAt ps m).isSome).length : Nat) : Int) = dayCovered ps d0 (d0 + n) := by
  unfold rateAt
  exact valCount_eq spread spread_isSome ps hch n d0

/-- every period `periods` builds starts at or after the first reading -/
theorem periods_lb : ∀ (reads : List (Int × Option Rat)), reads.Pairwise (fun a b => a.1 < b.1) →
    ∀ q ∈ periods reads, ∀ r ∈ reads.head?, r.1 ≤ q.t0 := by
  intro reads
  induction reads with
  | nil => intro _ q hq; simp [periods] at hq
  | cons a rest ih =>
    intro hp q hq r hr
    cases rest with
    | nil => simp [periods] at hq
    | cons b rest' =>
      simp only [List.head?_cons, Option.mem_def, Option.some.injEq] at hr
      subst hr
      simp only [periods, List.mem_cons] at hq
      rcases hq with rfl | hq
      · simp
      · have hp' := (List.pairwise_cons.mp hp)
        have := ih hp'.2 q hq b (by simp)
        have hab := hp'.1 b (by simp)
        omega

/-- readings on a strictly increasing index yield chained periods -/
theorem periods_chained : ∀ (reads : List (Int × Option Rat)), reads.Pairwise (fun a b => a.1 < b.1) →
    Chained (periods reads) := by
  intro reads
  induction reads with
  | nil => intro _; simp [periods, Chained]
  | cons a rest ih =>
    intro hp
    cases rest with
    | nil => simp [periods, Chained]
    | cons b rest' =>
      have hp' := List.pairwise_cons.mp hp
      simp only [periods, Chained]
      refine ⟨hp'.1 b (by simp), ?_, ih hp'.2⟩
      intro q hq
      exact periods_lb (b :: rest') hp'.2 q hq b (by simp)

end EEM.Bridge.ResampleRefine
