/-
  EEM.Bridge.SuffPlan — helper lemmas relating the interpretation of the regenerated sufficiency plan
  (`EEM.Model.SufficiencyPlan`) to the quantities of the hand model (`EEM.Model.Sufficiency`).
-/
import EEM.Gen.SufficiencyPlan
import Mathlib.Tactic.Linarith
import Mathlib.Tactic.FieldSimp
import Mathlib.Tactic.Ring
import Mathlib.Algebra.Order.Field.Rat

namespace EEM.Bridge.SuffPlan
open EEM.Model.Sufficiency EEM.Model.SufficiencyPlan

theorem lt_frac_eq_under90 (v n : Int) :
    Op.eval .lt (frac v n) ((9 : Rat) / (10 : Rat)) = under90 v n := by
  unfold Op.eval frac under90
  by_cases hn : n > 0
  · simp [hn]
  · simp [hn]; norm_num

theorem anyMonth_lt_eq (flag : Row → Bool) (rows : List Row) :
    anyMonth flag .lt ((9 : Rat) / (10 : Rat)) rows = monthlyUnder90 flag rows := by
  unfold anyMonth monthlyUnder90 Op.eval
  simp

theorem negcount_gt_zero (rows : List Row) :
    Op.eval .gt (((rows.filter (·.obsNegative)).length : Rat)) (0 : Rat)
      = rows.any (fun r => r.obsNegative) := by
  unfold Op.eval
  induction rows with
  | nil => simp
  | cons r rs ih =>
    simp only [List.filter_cons, List.any_cons]
    cases hr : r.obsNegative
    · simpa using ih
    · simp
      positivity


theorem ndays_gt (n : Int) :
    Op.eval .gt (n : Rat) (365 : Rat) = decide (n > 365) := by
  unfold Op.eval; simp; exact_mod_cast Iff.rfl

theorem ndays_lt (n : Int) :
    Op.eval .lt (n : Rat) (329 : Rat) = decide (n < 329) := by
  unfold Op.eval; simp; exact_mod_cast Iff.rfl

theorem map_dq_ite (c : Prop) [Decidable c] (e : Emit) :
    List.map (fun x : Emit => x.dq) (if c then [e] else []) = if c then [e.dq] else [] := by
  split <;> rfl


end EEM.Bridge.SuffPlan
