/-
  EEM.Bridge.Corr — helper lemmas for C16: Cauchy–Schwarz on lists (discriminant argument) and the
  bounds of the model's Pearson correlation.  No property theorems here.
-/
import EEM.Real
import EEM.Model.Metrics
import Mathlib.Tactic.Linarith
import Mathlib.Tactic.Ring
import Mathlib.Tactic.FieldSimp
import Mathlib.Tactic.Positivity
import Mathlib.Algebra.BigOperators.Group.List.Basic
import Mathlib.Algebra.Order.BigOperators.Group.List
import Mathlib.Analysis.SpecialFunctions.Pow.Real

namespace EEM.Bridge.Corr
open EEM EEM.Model.Metrics EEM.RealBridge

theorem asum_eq_sum (l : List ℝ) : asum l = l.sum := by
  induction l with
  | nil => simp [asum, ofNat_eq]
  | cons a t ih => simp [asum, add_eq, ih]

/-- Cauchy–Schwarz on zipped lists, via the discriminant of Σ (a·t − b)² ≥ 0 -/
theorem cs_list (l : List (ℝ × ℝ)) :
    (l.map fun q => q.1 * q.2).sum ^ 2 ≤ (l.map fun q => q.1 * q.1).sum * (l.map fun q => q.2 * q.2).sum := by
  set A := (l.map fun q => q.1 * q.1).sum with hA
  set B := (l.map fun q => q.2 * q.2).sum with hB
  set C := (l.map fun q => q.1 * q.2).sum with hC
  have hquad : ∀ t : ℝ, 0 ≤ A * t ^ 2 - 2 * C * t + B := by
    intro t
    have : A * t ^ 2 - 2 * C * t + B = (l.map fun q => (q.1 * t - q.2) ^ 2).sum := by
      rw [hA, hB, hC]
      clear hA hB hC
      induction l with
      | nil => simp only [List.map_nil, List.sum_nil]; ring
      | cons a l ih =>
        simp only [List.map_cons, List.sum_cons]
        rw [← ih]; ring
    rw [this]
    apply List.sum_nonneg
    intro x hx
    obtain ⟨q, _, rfl⟩ := List.mem_map.mp hx
    positivity
  have hA0 : 0 ≤ A := by
    rw [hA]; apply List.sum_nonneg; intro x hx
    obtain ⟨q, _, rfl⟩ := List.mem_map.mp hx
    exact mul_self_nonneg _
  rcases hA0.lt_or_eq with hpos | hz
  · have h := hquad (C / A)
    have : A * (C / A) ^ 2 - 2 * C * (C / A) + B = B - C ^ 2 / A := by field_simp; ring
    rw [this] at h
    have h2 : C ^ 2 / A ≤ B := by linarith
    rw [div_le_iff₀ hpos] at h2
    linarith
  · -- A = 0: the quadratic is −2Ct + B ≥ 0 for all t, so C = 0
    rw [← hz] at hquad ⊢
    by_contra hne
    have hC : C ≠ 0 := by
      intro h0; apply hne; rw [h0]; exact le_of_eq (by ring)
    have h := hquad ((B + 1) / (2 * C))
    have : (0:ℝ) * ((B + 1) / (2 * C)) ^ 2 - 2 * C * ((B + 1) / (2 * C)) + B = -1 := by field_simp; ring
    rw [this] at h
    linarith


/-- the correlation of any two equally long columns with spread lies in [−1, 1] (as r² ≤ 1) -/
theorem pearson_sq_le_one (xs ys : List ℝ) (hlen : xs.length = ys.length)
    (hx : 0 < (xs.map fun x => (x - mean xs) * (x - mean xs)).sum)
    (hy : 0 < (ys.map fun y => (y - mean ys) * (y - mean ys)).sum) :
    pearson xs ys * pearson xs ys ≤ 1 := by
  unfold pearson
  simp only [asum_eq_sum, carrier_sqrt, div_eq, mul_eq, sub_eq]
  set mx := mean xs
  set my := mean ys
  have hcs := cs_list ((xs.zip ys).map fun q => (q.1 - mx, q.2 - my))
  simp only [List.map_map, Function.comp_def] at hcs
  have e2 : ((xs.zip ys).map fun q => (q.1 - mx) * (q.1 - mx)).sum = (xs.map fun x => (x - mx) * (x - mx)).sum := by
    have : ((xs.zip ys).map fun q => (q.1 - mx) * (q.1 - mx)) = ((xs.zip ys).map Prod.fst).map fun x => (x - mx) * (x - mx) := by
      rw [List.map_map]; rfl
    rw [this, List.map_fst_zip (le_of_eq hlen)]
  have e3 : ((xs.zip ys).map fun q => (q.2 - my) * (q.2 - my)).sum = (ys.map fun y => (y - my) * (y - my)).sum := by
    have : ((xs.zip ys).map fun q => (q.2 - my) * (q.2 - my)) = ((xs.zip ys).map Prod.snd).map fun y => (y - my) * (y - my) := by
      rw [List.map_map]; rfl
    rw [this, List.map_snd_zip (le_of_eq hlen.symm)]
  rw [e2, e3] at hcs
  set C := ((xs.zip ys).map fun q => (q.1 - mx) * (q.2 - my)).sum
  set X := (xs.map fun x => (x - mx) * (x - mx)).sum
  set Y := (ys.map fun y => (y - my) * (y - my)).sum
  have hXY : 0 < X * Y := mul_pos hx hy
  rw [div_mul_div_comm, Real.mul_self_sqrt hXY.le, div_le_one hXY]
  calc C * C = C ^ 2 := by ring
    _ ≤ X * Y := hcs

/-- hence −1 ≤ r ≤ 1 -/
theorem pearson_abs_le_one (xs ys : List ℝ) (hlen : xs.length = ys.length)
    (hx : 0 < (xs.map fun x => (x - mean xs) * (x - mean xs)).sum)
    (hy : 0 < (ys.map fun y => (y - mean ys) * (y - mean ys)).sum) :
    -1 ≤ pearson xs ys ∧ pearson xs ys ≤ 1 := by
  have h := pearson_sq_le_one xs ys hlen hx hy
  constructor <;> nlinarith [h]


end EEM.Bridge.Corr
