/-
  EEM.Model.DailyCurve — hand model (T2) of `DailyModel._predict_submodel`
  (daily/model.py:973-1024) and of `ModelCoefficients.to_np_array/.model_key`
  (daily/parameters.py:126-321), composed from the GENERATED kernels in `EEM.Gen.DailyCurve`
  exactly as the Python composes them.  Core Lean only (the driver executes it on `Float`).
-/
import EEM.Carrier
import EEM.Gen.DailyCurve

namespace EEM.Model
open EEM EEM.Gen EEM.ArithNotation

inductive ModelType where
  | hdd_tidd_cdd_smooth | hdd_tidd_cdd | hdd_tidd_smooth | hdd_tidd
  | tidd_cdd_smooth | tidd_cdd | tidd
  deriving DecidableEq, Repr

/-- `ModelCoefficients.model_key` -/
def ModelType.key : ModelType → ModelKey
  | .hdd_tidd_cdd_smooth => .hdd_tidd_cdd_smooth
  | .hdd_tidd_cdd => .hdd_tidd_cdd
  | .hdd_tidd_smooth | .tidd_cdd_smooth => .c_hdd_tidd_smooth
  | .hdd_tidd | .tidd_cdd => .c_hdd_tidd
  | .tidd => .tidd

/-- `ModelCoefficients`: optional fields are `None` when absent. -/
structure Coeffs (α : Type) where
  model_type : ModelType
  intercept : α
  hdd_bp : Option α := none
  hdd_beta : Option α := none
  hdd_k : Option α := none
  cdd_bp : Option α := none
  cdd_beta : Option α := none
  cdd_k : Option α := none

/-- `ModelCoefficients.to_np_array`; `none` when a field the shape needs is `None`
(Python builds an object array there and the numba kernel raises). -/
def Coeffs.toNpArray {α : Type} (c : Coeffs α) : Option (List α) :=
  match c.model_type with
  | .hdd_tidd_cdd_smooth => do
      some [← c.hdd_bp, ← c.hdd_beta, ← c.hdd_k, ← c.cdd_bp, ← c.cdd_beta, ← c.cdd_k, c.intercept]
  | .hdd_tidd_cdd => do some [← c.hdd_bp, ← c.hdd_beta, ← c.cdd_bp, ← c.cdd_beta, c.intercept]
  | .hdd_tidd_smooth => do some [← c.hdd_bp, ← c.hdd_beta, ← c.hdd_k, c.intercept]
  | .tidd_cdd_smooth => do some [← c.cdd_bp, ← c.cdd_beta, ← c.cdd_k, c.intercept]
  | .hdd_tidd => do some [← c.hdd_bp, ← c.hdd_beta, c.intercept]
  | .tidd_cdd => do some [← c.cdd_bp, ← c.cdd_beta, c.intercept]
  | .tidd => some [c.intercept]

/-- `DailySubmodelParameters` -/
structure Submodel (α : Type) where
  coeffs : Coeffs α
  T_min : α
  T_max : α
  T_min_seg : α
  T_max_seg : α
  f_unc : α

section
variable {α : Type} [Carrier α]

/-- the 7-vector `x` handed to `full_model` by `_predict_submodel` (after
`get_full_model_x` and, for the full smooth shape only, `get_smooth_coeffs`) -/
def fullX (s : Submodel α) : Option (List α) := do
  let x0 ← s.coeffs.toNpArray
  let key := s.coeffs.model_type.key
  let x ← get_full_model_x key x0 s.T_min s.T_max s.T_min_seg s.T_max_seg
  if key == ModelKey.hdd_tidd_cdd_smooth then
    match x with
    | [hdd_bp, hdd_beta, pct_hdd_k, cdd_bp, cdd_beta, pct_cdd_k, intercept] =>
      match get_smooth_coeffs hdd_bp pct_hdd_k cdd_bp pct_cdd_k with
      | [hdd_bp, hdd_k, cdd_bp, cdd_k] =>
        some [hdd_bp, hdd_beta, hdd_k, cdd_bp, cdd_beta, cdd_k, intercept]
      | _ => none
    | _ => none
  else
    some x

/-- result of `_predict_submodel` for one temperature -/
structure Pred (α : Type) where
  model : α
  hdd_load : α
  cdd_load : α

/-- `_predict_submodel` for one day: model value and the load split
`hdd_load[T <= hdd_bp] = model - intercept`, `cdd_load[T >= cdd_bp] = model - intercept`. -/
def predictSubmodel (s : Submodel α) (T : α) : Option (Pred α) := do
  let x ← fullX s
  match x with
  | [hdd_bp, hdd_beta, hdd_k, cdd_bp, cdd_beta, cdd_k, intercept] =>
    let model ← full_model_elem hdd_bp hdd_beta hdd_k cdd_bp cdd_beta cdd_k intercept
                  [s.T_min, s.T_max] T
    let load_only := model - intercept
    let hdd_load := if Arith.leb T hdd_bp then load_only else (0 : α)
    let cdd_load := if Arith.geb T cdd_bp then load_only else (0 : α)
    some { model := model, hdd_load := hdd_load, cdd_load := cdd_load }
  | _ => none

end
end EEM.Model
