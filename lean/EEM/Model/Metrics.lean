/-
  EEM.Model.Metrics — hand model (T2) of `BaselineMetrics` / `ReportingMetrics`
  (common/metrics.py:107-509) over the carrier, the hourly poor-fit gate
  (`HourlyModel._model_fit_is_acceptable`, hourly/model.py:1030-1036) and the daily CVRMSE gate
  (daily/model.py:179-189).  `_safe_divide` itself is GENERATED (EEM.Gen.SafeDivide).
  A row is `(observed, predicted)`, `none` = not finite (NaN or ±inf).  Core Lean only.
-/
import EEM.Carrier
import EEM.Gen.SafeDivide
import EEM.Model.MetricBase

namespace EEM.Model.Metrics
open EEM EEM.ArithNotation

section
variable {α : Type} [Carrier α]

def asum : List α → α
  | [] => 0
  | x :: xs => x + asum xs

/-- rows where both values are finite (`np.isfinite(observed) & np.isfinite(predicted)`) -/
def finitePairs (rows : List (Option α × Option α)) : List (α × α) :=
  rows.filterMap fun r => match r.1, r.2 with
    | some o, some p => some (o, p)
    | _, _ => none

def obs (ps : List (α × α)) : List α := ps.map (·.1)
def pred (ps : List (α × α)) : List α := ps.map (·.2)
/-- `observed − predicted` -/
def resid (ps : List (α × α)) : List α := ps.map fun q => q.1 - q.2

def nOf (ps : List (α × α)) : α := Arith.ofNat ps.length
def mean (xs : List α) : α := asum xs / Arith.ofNat xs.length
def sse (ps : List (α × α)) : α := asum ((resid ps).map fun r => r * r)
def mse (ps : List (α × α)) : α := sse ps / nOf ps
def rmse (ps : List (α × α)) : α := Carrier.sqrt (mse ps)
/-- `max(n − p, 1)` on naturals (n and p are integers in the code) -/
def ddof (ps : List (α × α)) (numParams : Nat) : Nat := if ps.length - numParams < 1 then 1 else ps.length - numParams
def rmseAdj (ps : List (α × α)) (numParams : Nat) : α := Carrier.sqrt (sse ps / Arith.ofNat (ddof ps numParams))
def mae (ps : List (α × α)) : α := asum ((resid ps).map Arith.abs) / nOf ps
def mbe (ps : List (α × α)) : α := mean (resid ps)

/-- population variance (`var(ddof=0)`) -/
def variance (xs : List α) : α :=
  let m := mean xs
  asum (xs.map fun x => (x - m) * (x - m)) / Arith.ofNat xs.length

/-- Pearson correlation (what `DataFrame.corr()` and `Series.autocorr` compute) -/
def pearson (xs ys : List α) : α :=
  let mx := mean xs
  let my := mean ys
  let sxy := asum ((xs.zip ys).map fun q => (q.1 - mx) * (q.2 - my))
  let sxx := asum (xs.map fun x => (x - mx) * (x - mx))
  let syy := asum (ys.map fun y => (y - my) * (y - my))
  sxy / Carrier.sqrt (sxx * syy)

def rSquared (ps : List (α × α)) : α := let r := pearson (pred ps) (obs ps); r * r

/-- insertion sort (for the quantiles) -/
def insertSorted (x : α) : List α → List α
  | [] => [x]
  | y :: ys => if Arith.leb x y then x :: y :: ys else y :: insertSorted x ys
def sortAsc (xs : List α) : List α := xs.foldr insertSorted []

def floorNat (q : Nat × Nat) (n1 : Nat) : Nat := q.1 * n1 / q.2

/-- `np.quantile(xs, q)` with linear interpolation, `q = num/den` (numpy's `(1−g)·a + g·b`
is computed as `a + (b − a)·g` by `_lerp`) -/
def quantile (xs : List α) (num den : Nat) : α :=
  let s := sortAsc xs
  let n1 := s.length - 1
  let lo := num * n1 / den
  let gNum := num * n1 - lo * den            -- g = gNum / den
  let a := s.getD lo 0
  let b := s.getD (lo + 1) a
  a + (b - a) * (Arith.ofNat gNum / Arith.ofNat den)

def iqr (xs : List α) : α := quantile xs 3 4 - quantile xs 1 4

def minDenominator : α := Arith.ofSci 1 true 3

def cvrmse (ps : List (α × α)) : Option α := Gen.safe_divide (rmse ps) (mean (obs ps)) minDenominator
def cvrmseAdj (ps : List (α × α)) (k : Nat) : Option α := Gen.safe_divide (rmseAdj ps k) (mean (obs ps)) minDenominator
def pnrmse (ps : List (α × α)) : Option α := Gen.safe_divide (rmse ps) (iqr (obs ps)) minDenominator
def pnrmseAdj (ps : List (α × α)) (k : Nat) : Option α := Gen.safe_divide (rmseAdj ps k) (iqr (obs ps)) minDenominator
def nmae (ps : List (α × α)) : Option α := Gen.safe_divide (mae ps) (mean (obs ps)) minDenominator
def nmbe (ps : List (α × α)) : Option α := Gen.safe_divide (mbe ps) (mean (obs ps)) minDenominator

/-- lag-1 autocorrelation of the residuals -/
def autocorr1 (ps : List (α × α)) : α :=
  let r := resid ps
  pearson r.tail r.dropLast

/-- the base quantities of a series of finite (observed, predicted) pairs, as the hand model computes them -/
def baseOf (ps : List (α × α)) (k : Nat) : MetricBase α :=
  { n := nOf ps, num_model_params := Arith.ofNat k, min_denominator := minDenominator,
    mae := mae ps, r_squared := rSquared ps, residuals_autocorr1 := autocorr1 ps,
    observed_mean := mean (obs ps), observed_iqr := iqr (obs ps),
    residuals_mean := mean (resid ps), residuals_sum_squared := sse ps }

/-- `ReportingMetrics.savings = predicted_sum − observed_sum` -/
def savings (ps : List (α × α)) : α := asum (pred ps) - asum (obs ps)

/-- hourly: acceptable when EITHER adjusted ratio is defined and below its threshold -/
def hourlyFitAcceptable (cv pn : Option α) (cvThr pnThr : α) : Bool :=
  (match cv with | some c => Arith.ltb c cvThr | none => false)
    || (match pn with | some p => Arith.ltb p pnThr | none => false)

/-- daily / billing: disqualified when CVRMSE exceeds its threshold -/
def dailyDisqualified (cvrmse thr : α) : Bool := Arith.gtb cvrmse thr

end
end EEM.Model.Metrics
