/-
  EEM.Model.Resample — what `as_freq(..., "D")` (cumulative), `downsample_and_clean_daily_data`
  and the off-cycle filter of `clean_billing_data` compute, in closed (interval-overlap) form over
  exact rationals and integer minutes.

  The code spreads each reading evenly over the minutes up to the next timestamp
  (`spread_factor = 1 min / Δt`, `asfreq("1 Min", method="ffill")`), then sums / counts the minutes
  of every local calendar day.  Summing a constant rate over the minutes of `[d0,d1) ∩ [t0,t1)` is
  `overlap · v / (t1 - t0)`, which is what `share` says.  Day boundaries (local midnights, in UTC
  minutes) are an input: time-zone arithmetic is outside the model.  HAND MODEL (T2: ./check C08).
  No Mathlib imports.
-/
namespace EEM.Model.Resample

/-- minutes of `[a,b) ∩ [c,d)` -/
def overlap (a b c d : Int) : Int := max 0 (min b d - max a c)

/-- one reading held over `[t0,t1)`; `v = none` is a missing (NaN) or dropped value -/
structure Period where
  t0 : Int
  t1 : Int
  v : Option Rat
  deriving Repr

/-- consecutive readings become periods; the last reading's interval is open-ended (`NaT`), so its
spread value is NaN: it contributes nothing -/
def periods : List (Int × Option Rat) → List Period
  | (t0, v) :: (t1, w) :: rest => ⟨t0, t1, v⟩ :: periods ((t1, w) :: rest)
  | _ => []

/-- usage of `p` that falls in `[d0,d1)` -/
def share (p : Period) (d0 d1 : Int) : Rat :=
  match p.v with
  | some v => v * (overlap d0 d1 p.t0 p.t1 : Int) / ((p.t1 - p.t0 : Int) : Rat)
  | none => 0

/-- minutes of `[d0,d1)` on which `p` supplies a value -/
def covered (p : Period) (d0 d1 : Int) : Int :=
  match p.v with
  | some _ => overlap d0 d1 p.t0 p.t1
  | none => 0

def daySum (ps : List Period) (d0 d1 : Int) : Rat := (ps.map fun p => share p d0 d1).sum
def dayCovered (ps : List Period) (d0 d1 : Int) : Int := (ps.map fun p => covered p d0 d1).sum

/-- `as_freq(series, "D")`, cumulative: the day's sum, missing when no minute of the day has a value -/
def spreadDay (ps : List Period) (d0 d1 : Int) : Option Rat :=
  if dayCovered ps d0 d1 = 0 then none else some (daySum ps d0 d1)

/-- consecutive boundaries -/
def days : List Int → List (Int × Int)
  | a :: b :: rest => (a, b) :: days (b :: rest)
  | _ => []

def asFreqDaily (ps : List Period) (bounds : List Int) : List (Option Rat) :=
  (days bounds).map fun d => spreadDay ps d.1 d.2

/-- coverage of a day: valid minutes / minutes of the day -/
def coverage (ps : List Period) (d0 d1 : Int) : Rat := (dayCovered ps d0 d1 : Rat) / ((d1 - d0 : Int) : Rat)

/-- `downsample_and_clean_daily_data`: the 50 % rule and the 1/coverage scaling -/
def downsampleDay (ps : List Period) (d0 d1 : Int) : Option Rat :=
  if coverage ps d0 d1 > 1 / 2 then some (daySum ps d0 d1 / coverage ps d0 d1) else none

def downsampleDaily (ps : List Period) (bounds : List Int) : List (Option Rat) :=
  (days bounds).map fun d => downsampleDay ps d.1 d.2

inductive Cycle | monthly | bimonthly
  deriving DecidableEq, Repr

/-- length of a billing period in whole days on the LOCAL WALL CLOCK
(`(index[1:] - index[:-1]).days` of the timezone-naive index): `w0`, `w1` are wall-clock minutes -/
def lenDays (w0 w1 : Int) : Int := (w1 - w0) / 1440

def Cycle.maxDays : Cycle → Int
  | .monthly => 35
  | .bimonthly => 70

def offCycle (c : Cycle) (days : Int) : Bool := days < 25 || days > c.maxDays

/-- `clean_billing_data` (CalTRACK 2.2.3.4/5): off-cycle periods lose their value; every period comes
with its length in calendar days -/
def cleanBilling (c : Cycle) (ps : List (Period × Int)) : List Period :=
  ps.map fun p => if offCycle c p.2 then { p.1 with v := none } else p.1

/-- consecutive reads `(instant, wall-clock minute, value)` become periods with their calendar length -/
def periodsW : List (Int × Int × Option Rat) → List (Period × Int)
  | (t0, w0, v) :: (t1, w1, x) :: rest => (⟨t0, t1, v⟩, lenDays w0 w1) :: periodsW ((t1, w1, x) :: rest)
  | _ => []

/-- billing pipeline of `_BillingData._compute_meter_value_df` after the read calendar is fixed -/
def billingDaily (c : Cycle) (reads : List (Int × Int × Option Rat)) (bounds : List Int) : List (Option Rat) :=
  asFreqDaily (cleanBilling c (periodsW reads)) bounds

/-- sub-daily pipeline of `_DailyData._compute_meter_value_df`: missing readings are dropped first -/
def subDaily (reads : List (Int × Option Rat)) (bounds : List Int) : List (Option Rat) :=
  downsampleDaily (periods (reads.filter fun r => r.2.isSome)) bounds

end EEM.Model.Resample
