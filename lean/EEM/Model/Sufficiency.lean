/-
  EEM.Model.Sufficiency — `SufficiencyCriteria` and its Daily / Billing / Hourly subclasses
  (`opendsm/eemeter/common/sufficiency_criteria.py`): which disqualifications are reported for a
  sufficiency frame.  A row of the frame is reduced to what the checks read: its instant, its
  calendar month, whether usage / temperature / irradiance are present, the sign of usage, whether
  the row's temperature coverage ratio exceeds 0.9, and whether the row has no NaN at all
  (`data.dropna()`).  Exact rationals; `int(x)` is the floor (all sums are non-negative).
  HAND MODEL (T2: ./check C10).  No Mathlib imports.
-/
namespace EEM.Model.Sufficiency

structure Row where
  t : Int                 -- instant on the LOCAL WALL CLOCK (index.tz_localize(None)), minutes
  month : Nat             -- calendar month of the index (1..12)
  obsPresent : Bool
  obsNegative : Bool
  tempPresent : Bool
  tempCovOK : Bool        -- temperature_not_null / (temperature_not_null + temperature_null) > 0.9
  ghi : Option Bool       -- hourly only: irradiance column present → its notna flag
  complete : Bool         -- the row survives `data.dropna()`
  deriving Repr

inductive Family | daily | billing | hourly
  deriving DecidableEq, Repr

structure Cfg where
  family : Family
  /-- which list of checks runs: `check_sufficiency_reporting` (true) or `check_sufficiency_baseline` -/
  methodReporting : Bool
  /-- the `is_reporting_data` flag the data class passed; read inside the checks -/
  reporting : Bool
  electric : Bool
  deriving Repr

inductive DQ
  | no_data | negative_meter_values | incorrect_number_of_total_days | too_many_days_with_missing_data
  | too_many_days_with_missing_meter_data | too_many_days_with_missing_temperature_data
  | missing_monthly_temperature_data | missing_monthly_meter_data | missing_monthly_ghi_data
  deriving DecidableEq, Repr

/-- `(data_end - data_start).days + 1` over the rows that survive `dropna()`; `none` when there are none -/
def nDaysTotal (rows : List Row) : Option Int :=
  let c := rows.filter (·.complete)
  match c.head?, c.getLast? with
  | some a, some b => some ((b.t - a.t) / 1440 + 1)
  | _, _ => none

/-- `day_counts`: days up to the next timestamp; the last row has none (NaN) -/
def dayCounts : List Row → List (Row × Option Rat)
  | a :: b :: rest => (a, some (((b.t - a.t : Int) : Rat) / 1440)) :: dayCounts (b :: rest)
  | [a] => [(a, none)]
  | [] => []

/-- `int((mask * row_day_counts).sum())` -/
def validDays (mask : Row → Bool) (rows : List Row) : Int :=
  ((dayCounts rows).map fun (p : Row × Option Rat) => match p.2 with
    | some d => if mask p.1 then d else (0 : Rat)
    | none => (0 : Rat)).sum.floor

def obsValid (r : Row) : Bool := r.obsPresent
def tempValid (r : Row) : Bool := r.tempCovOK
def bothValid (cfg : Cfg) (r : Row) : Bool := if cfg.reporting then tempValid r else obsValid r && tempValid r

/-- `n_valid / float(n_total) < 0.9`, with the `n_total > 0` guard of the code (fraction 0 otherwise) -/
def under90 (nValid nTotal : Int) : Bool :=
  if nTotal > 0 then decide ((nValid : Rat) / (nTotal : Rat) < 9 / 10) else true

def months (rows : List Row) : List Nat := (rows.map (·.month)).eraseDups

/-- some calendar month has a `notna().mean()` below 0.9 -/
def monthlyUnder90 (flag : Row → Bool) (rows : List Row) : Bool :=
  (months rows).any fun m =>
    let g := rows.filter (·.month == m)
    decide (((g.filter flag).length : Rat) / (g.length : Rat) < 9 / 10)

/-- the disqualifications reported by `check_sufficiency_baseline` / `_reporting`, for a frame with
at least one complete row (the empty case is `no_data` and is handled by the harness oracle) -/
def verdict (cfg : Cfg) (rows : List Row) : List DQ :=
  match nDaysTotal rows with
  | none => [.no_data]
  | some nTotal =>
    let base := !cfg.methodReporting
    let flag := !cfg.reporting
    (if base && flag && !cfg.electric && rows.any (fun r => r.obsNegative) then [DQ.negative_meter_values] else [])
    ++ (if base && ((flag && decide (nTotal > 365)) || decide (nTotal < 329)) then [DQ.incorrect_number_of_total_days] else [])
    ++ (if under90 (validDays (bothValid cfg) rows) nTotal then [DQ.too_many_days_with_missing_data] else [])
    ++ (if base && flag && under90 (validDays obsValid rows) nTotal then [DQ.too_many_days_with_missing_meter_data] else [])
    ++ (if under90 (validDays tempValid rows) nTotal then [DQ.too_many_days_with_missing_temperature_data] else [])
    ++ (if monthlyUnder90 (·.tempPresent) rows then [DQ.missing_monthly_temperature_data] else [])
    ++ (if cfg.family == .hourly && base && flag && monthlyUnder90 (·.obsPresent) rows then [DQ.missing_monthly_meter_data] else [])
    ++ (if cfg.family == .hourly && rows.any (fun r => r.ghi.isSome)
          && monthlyUnder90 (fun r => r.ghi.getD false) rows then [DQ.missing_monthly_ghi_data] else [])

end EEM.Model.Sufficiency
