/-
  EEM.Model.Time — integer civil-calendar arithmetic shared by the hand models.
  An instant is `Int` UTC seconds; the harness supplies the UTC offset (seconds) in force at
  each instant (exported from zoneinfo), so local wall-clock seconds = utc + offset.
  Proleptic Gregorian calendar via the days-from-civil algorithm.  Core Lean only.
-/
namespace EEM.Time

/-- whole days since 1970-01-01 (floor) of a local-seconds count -/
def dayOf (localSecs : Int) : Int := localSecs / 86400
/-- seconds into the local day, 0 ≤ · < 86400 -/
def secOfDay (localSecs : Int) : Int := localSecs % 86400
/-- hour of the local day 0..23 -/
def hourOf (localSecs : Int) : Int := secOfDay localSecs / 3600
/-- pandas `dayofweek`: Monday = 0 … Sunday = 6 (1970-01-01 was a Thursday) -/
def weekday (day : Int) : Int := (day + 3) % 7

/-- (year, month 1..12, day 1..31) of a day count since 1970-01-01 -/
def civil (z0 : Int) : Int × Int × Int :=
  let z := z0 + 719468
  let era := z / 146097
  let doe := z - era * 146097
  let yoe := (doe - doe / 1460 + doe / 36524 - doe / 146096) / 365
  let y := yoe + era * 400
  let doy := doe - (365 * yoe + yoe / 4 - yoe / 100)
  let mp := (5 * doy + 2) / 153
  let d := doy - (153 * mp + 2) / 5 + 1
  let m := if mp < 10 then mp + 3 else mp - 9
  (if m ≤ 2 then y + 1 else y, m, d)

def monthOf (localSecs : Int) : Int := (civil (dayOf localSecs)).2.1
def yearOf (localSecs : Int) : Int := (civil (dayOf localSecs)).1
def domOf (localSecs : Int) : Int := (civil (dayOf localSecs)).2.2

/-- days since epoch of a civil date (inverse of `civil`) -/
def daysFromCivil (y0 m d : Int) : Int :=
  let y := if m ≤ 2 then y0 - 1 else y0
  let era := y / 400
  let yoe := y - era * 400
  let mp := if m > 2 then m - 3 else m + 9
  let doy := (153 * mp + 2) / 5 + d - 1
  let doe := yoe * 365 + yoe / 4 - yoe / 100 + doy
  era * 146097 + doe - 719468

theorem secOfDay_range (t : Int) : 0 ≤ secOfDay t ∧ secOfDay t < 86400 := by
  unfold secOfDay; omega

theorem hourOf_range (t : Int) : 0 ≤ hourOf t ∧ hourOf t < 24 := by
  unfold hourOf secOfDay; omega

theorem weekday_range (d : Int) : 0 ≤ weekday d ∧ weekday d < 7 := by
  unfold weekday; omega

theorem month_range (z : Int) : 1 ≤ (civil z).2.1 ∧ (civil z).2.1 ≤ 12 := by
  unfold civil
  simp only
  split <;> omega

end EEM.Time
