/-
  EEM.Model.ResampleMin — the minute-grid algorithm `as_freq(series, "D")` actually runs (cumulative series),
  as opposed to its closed form in `EEM.Model.Resample`:

      spread_factor = 1 min / (next timestamp − timestamp)        # NaT for the last reading
      series_spread = series * spread_factor
      atomic_series = series_spread.asfreq("1 Min", method="ffill")   # value of the last reading at or before the minute
      resampled     = atomic_series.resample("D").sum()               # NaNs are skipped
      n_coverage    = atomic_series.resample("D").count()             # minutes that carry a value

  `EEM.Bridge.ResampleRefine` proves that the day sums and day counts of this algorithm are the interval-overlap
  expressions (`daySum`, `dayCovered`) the C08 theorems are about.  Exact rationals, integer minutes.  Core Lean only.
-/
import EEM.Model.Resample

namespace EEM.Model.ResampleMin
open EEM.Model.Resample

/-- what minute `m` carries after `asfreq("1 Min", method="ffill")`: `f` of the reading whose interval `[t0, t1)` contains `m`
(a reading — NaN included — is repeated up to the next timestamp) -/
def valAt (f : Period → Option Rat) : List Period → Int → Option Rat
  | [], _ => none
  | p :: rest, m => if p.t0 ≤ m ∧ m < p.t1 then f p else valAt f rest m

/-- cumulative series: `series * spread_factor`, the reading divided by the minutes of its interval -/
def spread (p : Period) : Option Rat := p.v.map fun v => v / ((p.t1 - p.t0 : Int) : Rat)

/-- the spread value carried by minute `m` -/
def rateAt (ps : List Period) (m : Int) : Option Rat := valAt spread ps m

/-- instantaneous series (temperature): the reading itself is repeated -/
def heldAt (ps : List Period) (m : Int) : Option Rat := valAt (·.v) ps m

/-- the minutes `d0, d0+1, …` (`n` of them) -/
def minutesFrom (d0 : Int) : Nat → List Int
  | 0 => []
  | n + 1 => d0 :: minutesFrom (d0 + 1) n

/-- the minutes of the day `[d0, d1)` -/
def minutes (d0 d1 : Int) : List Int := minutesFrom d0 (d1 - d0).toNat

/-- `resample("D").sum()`: NaN minutes are skipped -/
def daySumMin (ps : List Period) (d0 d1 : Int) : Rat :=
  ((minutes d0 d1).map fun m => (rateAt ps m).getD 0).sum

/-- `resample("D").count()`: minutes that carry a value -/
def dayCountMin (ps : List Period) (d0 d1 : Int) : Nat :=
  ((minutes d0 d1).filter fun m => (rateAt ps m).isSome).length

/-- `as_freq(series, "D")` for billing data on the minute grid: the day's sum, missing when no minute of the day carries a value
(`resampled[resampled_with_nans.notnull()]`) -/
def spreadDayMin (ps : List Period) (d0 d1 : Int) : Option Rat :=
  if dayCountMin ps d0 d1 = 0 then none else some (daySumMin ps d0 d1)

/-- `downsample_and_clean_daily_data` on the minute grid: coverage = counted minutes / minutes of the day -/
def downsampleDayMin (ps : List Period) (d0 d1 : Int) : Option Rat :=
  let cov : Rat := ((dayCountMin ps d0 d1 : Nat) : Rat) / ((d1 - d0 : Int) : Rat)
  if cov > 1 / 2 then some (daySumMin ps d0 d1 / cov) else none

/-- the sub-daily pipeline of the daily data class, minute by minute -/
def subDailyMin (reads : List (Int × Option Rat)) (bounds : List Int) : List (Option Rat) :=
  (days bounds).map fun d => downsampleDayMin (periods (reads.filter fun r => r.2.isSome)) d.1 d.2

/-- `resample("D").mean()` of an instantaneous series: the mean over the minutes of the day that carry a value -/
def dayMeanMin (ps : List Period) (d0 d1 : Int) : Option Rat :=
  let c := ((minutes d0 d1).filter fun m => (heldAt ps m).isSome).length
  if c = 0 then none else some (((minutes d0 d1).map fun m => (heldAt ps m).getD 0).sum / (c : Rat))

/-- the sub-hourly temperature path of the data classes on the minute grid: the day's mean when more than half of its minutes
carry a value (the repaired code does not divide by the coverage) -/
def instDayMin (ps : List Period) (d0 d1 : Int) : Option Rat :=
  let c := ((minutes d0 d1).filter fun m => (heldAt ps m).isSome).length
  if ((c : Nat) : Rat) / ((d1 - d0 : Int) : Rat) > 1 / 2 then dayMeanMin ps d0 d1 else none

def instDailyMin (reads : List (Int × Option Rat)) (bounds : List Int) : List (Option Rat) :=
  (days bounds).map fun d => instDayMin (periods reads) d.1 d.2

/-- readings in time order with positive spacing: what `periods` yields for a sorted, duplicate-free index -/
def Chained : List Period → Prop
  | [] => True
  | p :: rest => p.t0 < p.t1 ∧ (∀ q ∈ rest, p.t1 ≤ q.t0) ∧ Chained rest

end EEM.Model.ResampleMin
