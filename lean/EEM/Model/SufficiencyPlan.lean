/-
  EEM.Model.SufficiencyPlan — the condition language of the *regenerated* sufficiency plan
  (`EEM.Gen.SufficiencyPlan`, extracted from `opendsm/eemeter/common/sufficiency_criteria.py` on every run)
  and its interpretation over the quantities of `EEM.Model.Sufficiency`.

  A plan is the ordered list of `_check_*` methods an entry point runs; a check is the list of
  disqualifications it can append, each with its guard.  Boolean structure, comparison operators and
  numeric thresholds of the guards come from the source; the *quantities* compared are named by the
  extractor (by the exact text of their defining expressions) and defined here, following the source:
  `fraction = n_valid / float(n_days_total) if n_days_total > 0 else 0`.
  HAND MODEL (interpretation) + T1 (the plan).  No Mathlib imports.
-/
import EEM.Model.Sufficiency

namespace EEM.Model.SufficiencyPlan
open EEM.Model.Sufficiency

inductive Q
  | nDaysTotal | fracValidDays | fracValidMeter | fracValidTemp | nNegative
  deriving DecidableEq, Repr

inductive Op | lt | le | gt | ge
  deriving DecidableEq, Repr

inductive Col | temperature | observed | ghi
  deriving DecidableEq, Repr

inductive Cond
  | tt
  | isReporting                       -- self.is_reporting_data
  | isElectric                        -- self.is_electricity_data
  | noCompleteRow                     -- self.data.dropna().empty
  | ghiAbsent                         -- "ghi" not in self.data.columns
  | cmp (q : Q) (op : Op) (num den : Nat)
  | anyMonth (c : Col) (op : Op) (num den : Nat)   -- (notna().mean() per calendar month  op  num/den).any()
  | not (c : Cond)
  | and (a b : Cond)
  | or (a b : Cond)
  deriving Repr

structure Emit where
  dq : DQ
  guard : Cond
  deriving Repr

structure Check where
  name : String
  emits : List Emit
  warns : List String
  deriving Repr

def Op.eval (op : Op) (a b : Rat) : Bool :=
  match op with
  | .lt => decide (a < b) | .le => decide (a ≤ b) | .gt => decide (a > b) | .ge => decide (a ≥ b)

/-- `n_valid / float(n_days_total)` under the source's guard `n_days_total > 0`, else 0 -/
def frac (v n : Int) : Rat := if n > 0 then (v : Rat) / (n : Rat) else 0

/-- the quantities a guard reads, for a frame whose day span is `n` -/
def evalQ (cfg : Cfg) (rows : List Row) (n : Int) : Q → Rat
  | .nDaysTotal => (n : Rat)
  | .fracValidDays => frac (validDays (bothValid cfg) rows) n
  | .fracValidMeter => frac (validDays obsValid rows) n
  | .fracValidTemp => frac (validDays tempValid rows) n
  | .nNegative => ((rows.filter (·.obsNegative)).length : Rat)

def colFlag : Col → Row → Bool
  | .temperature => (·.tempPresent)
  | .observed => (·.obsPresent)
  | .ghi => fun r => r.ghi.getD false

/-- some calendar month's `notna().mean()` compares `op` with the threshold -/
def anyMonth (flag : Row → Bool) (op : Op) (thr : Rat) (rows : List Row) : Bool :=
  (months rows).any fun m =>
    let g := rows.filter (·.month == m)
    op.eval (((g.filter flag).length : Rat) / (g.length : Rat)) thr

def evalCond (cfg : Cfg) (rows : List Row) (n : Int) : Cond → Bool
  | .tt => true
  | .isReporting => cfg.reporting
  | .isElectric => cfg.electric
  | .noCompleteRow => false            -- the theorems are about frames with a complete row (`nDaysTotal = some n`)
  | .ghiAbsent => !(rows.any fun r => r.ghi.isSome)
  | .cmp q op num den => op.eval (evalQ cfg rows n q) ((num : Rat) / (den : Rat))
  | .anyMonth c op num den => anyMonth (colFlag c) op ((num : Rat) / (den : Rat)) rows
  | .not c => !(evalCond cfg rows n c)
  | .and a b => evalCond cfg rows n a && evalCond cfg rows n b
  | .or a b => evalCond cfg rows n a || evalCond cfg rows n b

def runCheck (cfg : Cfg) (rows : List Row) (n : Int) (c : Check) : List DQ :=
  (c.emits.filter fun e => evalCond cfg rows n e.guard).map (·.dq)

/-- the disqualifications a plan appends, in order -/
def runPlan (cfg : Cfg) (rows : List Row) (n : Int) (plan : List Check) : List DQ :=
  plan.flatMap (runCheck cfg rows n)

/-- every disqualification a plan can ever append -/
def planEmits (plan : List Check) : List DQ := plan.flatMap fun c => c.emits.map (·.dq)

end EEM.Model.SufficiencyPlan
