/-
  EEM.Model.SettingsTree — hand model (T2) of the developer lock of the settings classes
  (`_check_developer_mode`, daily/utilities/settings.py:196-204, 385-395) over an ARBITRARY
  settings tree.  The concrete trees (field name, nesting, `developer` flag, default) are
  GENERATED from the live pydantic classes in `EEM.Gen.SettingsTables`.  Core Lean only.
-/
namespace EEM.Model.Settings

/-- a settings class: leaves carry the `developer` flag and the default (canonical text);
nodes are nested `BaseSettings` -/
inductive Tree where
  | leaf (dev : Bool) (default : String)
  | node (fields : List (String × Tree))

/-- the values of a constructed settings object, same shape -/
inductive Cfg where
  | val (v : String)
  | obj (fields : List (String × Cfg))

mutual
/-- `_check_developer_mode`: a nested settings object is recursed into (its own flag is not
consulted); a developer leaf must hold its default -/
def checkDev : Tree → Cfg → Bool
  | .leaf dev d, .val v => !dev || v == d
  | .node fs, .obj cs => checkFields fs cs
  | _, _ => false
def checkFields : List (String × Tree) → List (String × Cfg) → Bool
  | [], _ => true
  | (k, t) :: rest, cs =>
    (match cs.lookup k with
      | some c => checkDev t c
      | none => false) && checkFields rest cs
end

/-- the after-validator of DailySettings: with `developer_mode` nothing is checked -/
def accepts (t : Tree) (cfg : Cfg) (developerMode : Bool) : Bool :=
  developerMode || checkDev t cfg

/-- value at a path -/
def Cfg.get : Cfg → List String → Option String
  | .val v, [] => some v
  | .obj cs, k :: rest => match cs.lookup k with
    | some c => c.get rest
    | none => none
  | _, _ => none

mutual
/-- all developer leaves of a tree: (path, default) -/
def devLeaves : Tree → List (List String × String)
  | .leaf dev d => if dev then [([], d)] else []
  | .node fs => devLeavesF fs
def devLeavesF : List (String × Tree) → List (List String × String)
  | [] => []
  | (k, t) :: rest => ((devLeaves t).map fun p => (k :: p.1, p.2)) ++ devLeavesF rest
end

mutual
/-- the configuration in which every leaf holds its default -/
def defaultCfg : Tree → Cfg
  | .leaf _ d => .val d
  | .node fs => .obj (defaultCfgF fs)
def defaultCfgF : List (String × Tree) → List (String × Cfg)
  | [] => []
  | (k, t) :: rest => (k, defaultCfg t) :: defaultCfgF rest
end

/-- key normalisation of `BaseSettings.__lowercase_property_keys__` (ASCII) -/
def normKey (s : String) : String := (s.toLower.trimAscii).toString

end EEM.Model.Settings

namespace EEM.Model.Settings

mutual
/-- all non-developer leaves: paths -/
def nonDevLeaves : Tree → List (List String)
  | .leaf dev _ => if dev then [] else [[]]
  | .node fs => nonDevLeavesF fs
def nonDevLeavesF : List (String × Tree) → List (List String)
  | [] => []
  | (k, t) :: rest => ((nonDevLeaves t).map fun p => k :: p) ++ nonDevLeavesF rest
end

mutual
/-- the configuration with the value at `path` replaced -/
def setPath : Cfg → List String → String → Cfg
  | .val _, [], v => .val v
  | .obj cs, k :: rest, v => .obj (setPathF cs k rest v)
  | c, _, _ => c
def setPathF : List (String × Cfg) → String → List String → String → List (String × Cfg)
  | [], _, _, _ => []
  | (k', c) :: more, k, rest, v =>
    if k' == k then (k', setPath c rest v) :: more else (k', c) :: setPathF more k rest v
end

end EEM.Model.Settings
