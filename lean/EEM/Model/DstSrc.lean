/-
  EEM.Model.DstSrc — LITERAL transcription of `_transform_dst` (hourly/model.py), statement by statement:
  the global, index-based algorithm the source runs (operations sorted by flat index, fence-post slices,
  an iterator of interpolated values), as opposed to the per-day reading of it in `EEM.Model.Dst`.
  `EEM.Bridge.DstRefine` proves that the two agree on every well-formed input; `./check C06` runs this
  transcription against the real function on generated index lists (T2, function level).

      interp, mean = dst_indices
      remove_idx = [(REMOVE, date * 24 + hour) for date, hour in interp]
      interp_idx = [(INTERPOLATE, date * 24 + hour + 1) for date, hour in mean]
      interpolated_vals = [(prediction[idx - 1] + prediction[idx]) / 2 for _, idx in interp_idx]
      interpolation = iter(interpolated_vals)
      ops = sorted(remove_idx + interp_idx, key=lambda t: t[1])
      pairs = list(zip([(START_END, 0)] + ops, ops + [(START_END, None)]))
      slices = []
      for start, end in pairs:
          start_i = start[1]; end_i = end[1]
          if start[0] == REMOVE: start_i += 1
          if start[0] == INTERPOLATE: slices.append([next(interpolation)])
          slices.append(prediction[slice(start_i, end_i)])
      return np.concatenate(slices)

  Core Lean only; values over the carrier.
-/
import EEM.Model.Dst

namespace EEM.Model.DstSrc
open EEM EEM.ArithNotation EEM.Model.Dst

inductive Kind | startEnd | remove | interpolate
  deriving DecidableEq, Repr

/-- `prediction[slice(a, b)]` (`b = none` is `None`): numpy slicing never raises -/
def slice {α : Type} (p : List α) (a : Nat) (b : Option Nat) : List α :=
  match b with
  | none => p.drop a
  | some b => (p.take b).drop a

/-- `sorted(..., key=lambda t: t[1])`: stable insertion by flat index -/
def insertOp (x : Kind × Nat) : List (Kind × Nat) → List (Kind × Nat)
  | [] => [x]
  | y :: ys => if x.2 ≤ y.2 then x :: y :: ys else y :: insertOp x ys

def sortOps (l : List (Kind × Nat)) : List (Kind × Nat) := l.foldr insertOp []

section
variable {α : Type} [Arith α]

/-- the `for start, end in pairs` loop; `vals` is what is left of the `interpolation` iterator.
`none` = the Python code raises (`StopIteration`) -/
def loop (p : List α) : List ((Kind × Option Nat) × (Kind × Option Nat)) → List α → Option (List α)
  | [], _ => some []
  | (s, e) :: rest, vals =>
    let startI := s.2.getD 0 + (if s.1 = Kind.remove then 1 else 0)
    if s.1 = Kind.interpolate then
      match vals with
      | v :: vs => (loop p rest vs).map fun r => [v] ++ slice p startI e.2 ++ r
      | [] => none
    else (loop p rest vals).map fun r => slice p startI e.2 ++ r

/-- `(prediction[idx - 1] + prediction[idx]) / 2`; `none` = IndexError -/
def interpolatedVal (p : List α) (idx : Nat) : Option α :=
  match p[idx - 1]?, p[idx]? with
  | some a, some b => some (avg a b)
  | _, _ => none

def removeIdx (interp : List (Nat × Nat)) : List (Kind × Nat) := interp.map fun dh => (Kind.remove, dh.1 * 24 + dh.2)
def interpIdx (mean : List (Nat × Nat)) : List (Kind × Nat) := mean.map fun dh => (Kind.interpolate, dh.1 * 24 + dh.2 + 1)

/-- `_transform_dst(prediction, (interp, mean))`; `none` = the source raises -/
def transformDstSrc (p : List α) (interp mean : List (Nat × Nat)) : Option (List α) :=
  match (interpIdx mean).mapM (fun o => interpolatedVal p o.2) with
  | none => none
  | some vals =>
    let ops := (sortOps (removeIdx interp ++ interpIdx mean)).map fun o => (o.1, some o.2)
    loop p (((Kind.startEnd, some 0) :: ops).zip (ops ++ [(Kind.startEnd, none)])) vals
end

/-- what `_get_dst_indices` returns for the days from number `k` on: `(date_idx, hour)` of the 23-row days -/
def interpOfAux : Nat → List DayOp → List (Nat × Nat)
  | _, [] => []
  | k, .interp h :: r => (k, h) :: interpOfAux (k + 1) r
  | k, .none :: r => interpOfAux (k + 1) r
  | k, .mean _ :: r => interpOfAux (k + 1) r

/-- … and of the 25-row days -/
def meanOfAux : Nat → List DayOp → List (Nat × Nat)
  | _, [] => []
  | k, .mean h :: r => (k, h) :: meanOfAux (k + 1) r
  | k, .none :: r => meanOfAux (k + 1) r
  | k, .interp _ :: r => meanOfAux (k + 1) r

/-- what `_get_dst_indices` hands to `_transform_dst` for a frame whose days carry the operations `d` -/
def interpOf (d : List DayOp) : List (Nat × Nat) := interpOfAux 0 d
def meanOf (d : List DayOp) : List (Nat × Nat) := meanOfAux 0 d

end EEM.Model.DstSrc
