/-
  EEM.Model.Dst — hand model (T2) of the hourly model's clock normalisation
  (hourly/model.py:976-1000 `correct_dst`, 1409-1477 `_get_dst_indices`, `_transform_dst`).

  A frame is a list of local calendar days; a day is the list of its rows' clock hours (with the
  non-null `observed` count the code groups by).  Days with 23 counted rows get a synthesised
  slot, days with 25 get two slots merged, so that the regression sees 24 slots per day; the
  flat prediction (24 per day) is mapped back by removing / inserting one value per such day.
  Core Lean only; values over the carrier.
-/
import EEM.Carrier

namespace EEM.Model.Dst
open EEM EEM.ArithNotation

/-- what `_get_dst_indices` decides for one day -/
inductive DayOp where
  | none                  -- 24 counted rows (or any other count): left alone
  | interp (hour : Nat)   -- 23 counted rows: the clock hour missing from the day
  | mean (hour : Nat)     -- 25 counted rows: the first repeated clock hour
  deriving DecidableEq, Repr

/-- first hour that occurs twice, scanning in row order -/
def firstRepeated : List Nat → List Nat → Option Nat
  | _, [] => none
  | seen, h :: rest => if seen.contains h then some h else firstRepeated (h :: seen) rest

/-- one day: `hours` = clock hour of every row of the local date, `counted` = number of rows with a
non-null `observed`.  `Except.error ()` = `ValueError("too many missing hours")`. -/
def dayOp (hours : List Nat) (counted : Nat) : Except Unit DayOp :=
  if counted == 23 then
    match (List.range 24).filter (fun h => !hours.contains h) with
    | [h] => .ok (.interp h)
    | _ => .error ()
  else if counted == 25 then
    match firstRepeated [] hours with
    | some h => .ok (.mean h)
    | none => .ok (.mean 0)        -- `hour` would be unbound in the code; never reached when counted = #rows = 25
  else .ok .none

section
variable {α : Type} [Arith α]

def avg (a b : α) : α := (a + b) / 2

/-- `_transform_dst` for one day's 24 predictions; `next` = the following day's first prediction
(the repeated hour may be 23:00, then the inserted value averages across midnight) -/
def transformDay (op : DayOp) (next : Option α) (p : List α) : List α :=
  match op with
  | .none => p
  | .interp h => p.eraseIdx h
  | .mean h =>
    match p[h]?, (if h + 1 < p.length then p[h + 1]? else next) with
    | some a, some b => p.take (h + 1) ++ [avg a b] ++ p.drop (h + 1)
    | _, _ => p

/-- `_transform_dst`: per day; nothing is shifted across days -/
def transformDst : List DayOp → List α → List α
  | [], _ => []
  | op :: ops, pred =>
    transformDay op (pred.drop 24).head? (pred.take 24) ++ transformDst ops (pred.drop 24)

/-- `correct_dst` on one day's feature list (the inverse direction: make 24 slots).
`prevLast` = the previous day's last value (used when the skipped hour is 0). -/
def correctDay (op : DayOp) (prevLast : Option α) (f : List α) : List α :=
  match op with
  | .none => f
  | .interp h =>
    let left := if h == 0 then prevLast else f[h - 1]?
    match left, f[h]? with
    | some a, some b => f.take h ++ [avg a b] ++ f.drop h
    | _, _ => f
  | .mean h =>
    match f[h]?, f[h + 1]? with
    | some a, some b => f.take h ++ [avg b a] ++ f.drop (h + 2)
    | _, _ => f
end

/-- number of rows a day is expected to have, given its op -/
def DayOp.rows : DayOp → Nat
  | .none => 24 | .interp _ => 23 | .mean _ => 25

end EEM.Model.Dst
