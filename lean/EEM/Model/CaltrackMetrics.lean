/-
  EEM.Model.CaltrackMetrics — hand model (T2) of the CalTRACK-hourly `ModelMetrics`
  (opendsm/eemeter/models/hourly_caltrack/metrics.py:268-410), the statistics the legacy hourly method reports
  and feeds into its uncertainty.  Input: two series on one index; `none` = NaN.  The class drops the NaNs of
  each series separately (`observed_length`, `predicted_length`), inner-joins them (`merged_length`) and computes
  every statistic on the joined rows — except `n_prime`, which it scales with `observed_length`.
  Residuals are `predicted − observed`.  Core Lean only.
-/
import EEM.Model.Metrics

namespace EEM.Model.CaltrackMetrics
open EEM EEM.ArithNotation EEM.Model.Metrics

section
variable {α : Type} [Carrier α]

def observedLength (rows : List (Option α × Option α)) : Nat := (rows.filter (·.1.isSome)).length
def predictedLength (rows : List (Option α × Option α)) : Nat := (rows.filter (·.2.isSome)).length
/-- the inner join: rows on which both series have a value -/
def merged (rows : List (Option α × Option α)) : List (α × α) := finitePairs rows

/-- `combined.predicted − combined.observed` -/
def residPO (ps : List (α × α)) : List α := ps.map fun q => q.2 - q.1
def sseOf (ps : List (α × α)) : α := asum ((residPO ps).map fun r => r * r)
/-- `abs(combined["observed"]).mean()` — "to account for solar usage" -/
def observedMeanAbs (ps : List (α × α)) : α := mean ((obs ps).map Arith.abs)
def rmse (ps : List (α × α)) : α := Carrier.sqrt (sseOf ps / nOf ps)
/-- `_compute_rmse_adj`: NaN unless there are more rows than parameters -/
def rmseAdj (ps : List (α × α)) (k : Nat) : Option α :=
  if ps.length > k then some (Carrier.sqrt (sseOf ps / Arith.ofNat (ps.length - k))) else none
def cvrmse (ps : List (α × α)) : α := rmse ps / observedMeanAbs ps
def cvrmseAdj (ps : List (α × α)) (k : Nat) : Option α := (rmseAdj ps k).map fun r => r / observedMeanAbs ps
def nmae (ps : List (α × α)) : α := asum ((residPO ps).map Arith.abs) / asum (obs ps)
def nmbe (ps : List (α × α)) : α := asum (residPO ps) / asum (obs ps)
def rSquared (ps : List (α × α)) : α := Metrics.rSquared ps
/-- `combined["residuals"].autocorr(lag=1)` -/
def autocorr1 (ps : List (α × α)) : α := let r := residPO ps; pearson r.tail r.dropLast
/-- `observed_length * (1 − ρ) / (1 + ρ)` -/
def nPrime (rows : List (Option α × Option α)) : α :=
  let rho := autocorr1 (merged rows)
  Arith.ofNat (observedLength rows) * (1 - rho) / (1 + rho)
/-- the textbook autocorrelation-corrected n of the pairs the statistics are computed on -/
def nPrimePairs (rows : List (Option α × Option α)) : α :=
  let rho := autocorr1 (merged rows)
  Arith.ofNat (merged rows).length * (1 - rho) / (1 + rho)
end

end EEM.Model.CaltrackMetrics
