/-
  EEM.Model.Serial — hand model (T2) of the stored document of a daily/billing sub-model:
  `DailySubmodelParameters` / `ModelCoefficients` (daily/parameters.py:45-332) through
  `model_dump()` → `json.dumps` → `json.loads` → pydantic validation.  Core Lean only.
-/
import EEM.Model.DailyCurve

namespace EEM.Model.Serial
open EEM.Model

/-- a JSON value; numbers are carried as the carrier's values (IEEE doubles in the driver) -/
inductive J (α : Type) where
  | null
  | str (s : String)
  | num (x : α)
  | obj (fields : List (String × J α))

/-- `json.loads(json.dumps(·))` on documents whose keys are strings: the identity (ASSUMPTION of the
model: Python's repr round-trips every double, NaN and ±Infinity; strings and None are unchanged) -/
def dumpsLoads {α : Type} (j : J α) : J α := j

def modelTypeName : ModelType → String
  | .hdd_tidd_cdd_smooth => "hdd_tidd_cdd_smooth" | .hdd_tidd_cdd => "hdd_tidd_cdd"
  | .hdd_tidd_smooth => "hdd_tidd_smooth" | .hdd_tidd => "hdd_tidd"
  | .tidd_cdd_smooth => "tidd_cdd_smooth" | .tidd_cdd => "tidd_cdd" | .tidd => "tidd"

def parseModelType : String → Option ModelType
  | "hdd_tidd_cdd_smooth" => some .hdd_tidd_cdd_smooth | "hdd_tidd_cdd" => some .hdd_tidd_cdd
  | "hdd_tidd_smooth" => some .hdd_tidd_smooth | "hdd_tidd" => some .hdd_tidd
  | "tidd_cdd_smooth" => some .tidd_cdd_smooth | "tidd_cdd" => some .tidd_cdd | "tidd" => some .tidd
  | _ => none

variable {α : Type}

def optNum : Option α → J α
  | some x => .num x
  | none => .null

/-- `ModelCoefficients.model_dump()` -/
def coeffsToDoc (c : Coeffs α) : J α :=
  .obj [("model_type", .str (modelTypeName c.model_type)), ("intercept", .num c.intercept),
        ("hdd_bp", optNum c.hdd_bp), ("hdd_beta", optNum c.hdd_beta), ("hdd_k", optNum c.hdd_k),
        ("cdd_bp", optNum c.cdd_bp), ("cdd_beta", optNum c.cdd_beta), ("cdd_k", optNum c.cdd_k)]

/-- `DailySubmodelParameters.model_dump()` -/
def submodelToDoc (s : Submodel α) : J α :=
  .obj [("coefficients", coeffsToDoc s.coeffs),
        ("temperature_constraints", .obj [("T_min", .num s.T_min), ("T_max", .num s.T_max),
                                          ("T_min_seg", .num s.T_min_seg), ("T_max_seg", .num s.T_max_seg)]),
        ("f_unc", .num s.f_unc)]

def getNum : Option (J α) → Option α
  | some (.num x) => some x
  | _ => none

/-- an `Optional[float]` field: absent or null ⇒ None -/
def getOptNum : Option (J α) → Option (Option α)
  | some (.num x) => some (some x)
  | some .null => some none
  | none => some none
  | _ => none

/-- pydantic validation of `ModelCoefficients` from a dict -/
def coeffsFromDoc : J α → Option (Coeffs α)
  | .obj fs => do
    let mt ← match fs.lookup "model_type" with
      | some (.str s) => parseModelType s
      | _ => none
    let ic ← getNum (fs.lookup "intercept")
    let a ← getOptNum (fs.lookup "hdd_bp"); let b ← getOptNum (fs.lookup "hdd_beta"); let c ← getOptNum (fs.lookup "hdd_k")
    let d ← getOptNum (fs.lookup "cdd_bp"); let e ← getOptNum (fs.lookup "cdd_beta"); let f ← getOptNum (fs.lookup "cdd_k")
    some { model_type := mt, intercept := ic, hdd_bp := a, hdd_beta := b, hdd_k := c, cdd_bp := d, cdd_beta := e, cdd_k := f }
  | _ => none

def submodelFromDoc : J α → Option (Submodel α)
  | .obj fs => do
    let c ← (fs.lookup "coefficients").bind coeffsFromDoc
    let tc ← match fs.lookup "temperature_constraints" with
      | some (.obj t) => some t
      | _ => none
    let tmin ← getNum (tc.lookup "T_min"); let tmax ← getNum (tc.lookup "T_max")
    let tmins ← getNum (tc.lookup "T_min_seg"); let tmaxs ← getNum (tc.lookup "T_max_seg")
    let fu ← getNum (fs.lookup "f_unc")
    some { coeffs := c, T_min := tmin, T_max := tmax, T_min_seg := tmins, T_max_seg := tmaxs, f_unc := fu }
  | _ => none

end EEM.Model.Serial
