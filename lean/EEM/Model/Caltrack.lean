/-
  EEM.Model.Caltrack — hand model (T2) of the CalTRACK hourly routing and features:
  `segment_time_series` (segmentation.py:446-489) on top of the GENERATED weight tables,
  `SegmentedModel.predict`'s weight / zero-weight / lookup logic (segmentation.py:185-229),
  `compute_temperature_bin_features` (features.py:818-867), the occupancy masking of
  `caltrack_hourly_*_feature_processor` (hourly_caltrack/model.py:338-520) and
  `compute_time_features` (features.py:119-170).  Core Lean only.
-/
import EEM.Carrier
import EEM.Model.Time
import EEM.Gen.CaltrackTables

namespace EEM.Model.Caltrack
open EEM EEM.Gen.Caltrack

/-- `segment_time_series`'s dispatch on `segment_type`; `none` = `ValueError` -/
def tableOf : String → Option (List (String × List Nat))
  | "single" => some weights_single
  | "one_month" => some weights_one_month
  | "three_month" => some weights_three_month
  | "three_month_weighted" => some weights_three_month_weighted
  | _ => none

/-- the row of the segmentation frame for a timestamp in calendar month `m` (1..12):
(segment name, weight in halves) in column order -/
def weightsAt (tbl : List (String × List Nat)) (m : Nat) : List (String × Nat) :=
  tbl.map fun (n, ws) => (n, ws.getD (m - 1) 0)

/-- segments carrying weight `w` (in halves) in month `m` -/
def segsWith (tbl : List (String × List Nat)) (w m : Nat) : List String :=
  ((weightsAt tbl m).filter (·.2 == w)).map (·.1)

def prevMonth (m : Nat) : Nat := if m = 1 then 12 else m - 1
def nextMonth (m : Nat) : Nat := if m = 12 then 1 else m + 1

/-- `SegmentedModel.predict` for one hour in calendar month `m`, for a model fitted with
`three_month_weighted`: which fitted segment models contribute, and with what weight.
`fitted` = names of the segment models that exist.  The hour's prediction is
`Σ prediction(fit, hour) · weight` over this list (`NaN` when it is empty: `min_count=1`). -/
def predictContribs (fitted : List String) (m : Nat) : List (String × Nat) :=
  match tableOf predSegmentType with
  | none => []
  | some tbl =>
    (weightsAt tbl m).filterMap fun (pname, w) =>
      if w == 0 then none                          -- `prediction[weight > 0]`
      else match predNameMap.lookup pname with     -- `model_lookup[pred] = fitted.get(fit)`
        | none => none
        | some fit => if fitted.contains fit then some (fit, w) else none

/-- every fitted segment of the three-month-weighted method -/
def allFitted : List String := weights_three_month_weighted.map (·.1)

section bins
open EEM.ArithNotation
variable {α : Type} [Arith α]

/-- bins after the first: `left` is the bin's left endpoint -/
def binRest (T left : α) : List α → List α
  | [] => [if Arith.gtb T left then T - left else 0]            -- last bin: right = +∞
  | r :: rest =>
    (if Arith.gtb T left && Arith.leb T r then T - left
     else if Arith.gtb T r then r - left else 0) :: binRest T r rest

/-- `compute_temperature_bin_features` for one non-null temperature and endpoint list `es`:
`es.length + 1` features -/
def binFeatures (T : α) : List α → List α
  | [] => [T]                                                    -- (−∞, +∞]
  | e0 :: rest => (if Arith.leb T e0 then T else e0) :: binRest T e0 rest

/-- occupancy masking: occupied features are zeroed where occupancy = 0, unoccupied where
occupancy = 1; a missing occupancy (`none`, NaN in pandas) zeroes neither -/
def occupiedFeatures (occ : Option Bool) (feats : List α) : List α :=
  if occ == some false then feats.map (fun _ => 0) else feats
def unoccupiedFeatures (occ : Option Bool) (feats : List α) : List α :=
  if occ == some true then feats.map (fun _ => 0) else feats
end bins

/-- `compute_time_features`: pandas dayofweek·24 + hour of the local wall clock -/
def hourOfWeek (localSecs : Int) : Int :=
  Time.weekday (Time.dayOf localSecs) * 24 + Time.hourOf localSecs

end EEM.Model.Caltrack
