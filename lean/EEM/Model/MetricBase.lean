/-
  EEM.Model.MetricBase — the BASE quantities of `BaselineMetrics` (common/metrics.py): what the
  class obtains from pandas (row count, column statistics, MAE, R², the autocorrelation-corrected
  n) and its two parameters.  Every other statistic is arithmetic on these and is GENERATED from
  the source (`EEM.Gen.MetricFormulas`).  Core Lean only.
-/
import EEM.Carrier

namespace EEM.Model

structure MetricBase (α : Type) where
  n : α                          -- `len(self._df)`: rows where observed and predicted are finite
  num_model_params : α
  min_denominator : α            -- `_min_denominator`
  mae : α                        -- `residuals.abs().mean()`
  r_squared : α                  -- `corr()[predicted, observed] ** 2`
  residuals_autocorr1 : α        -- `residuals.autocorr(lag=1)`
  observed_mean : α
  observed_iqr : α
  residuals_mean : α
  residuals_sum_squared : α

end EEM.Model
