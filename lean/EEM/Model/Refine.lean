/-
  EEM.Model.Refine — hand model (T2) of the post-processing of an optimiser result into the
  stored record: `get_k`, `reduce_model` (daily/optimize_results.py:36-189) and
  `ModelCoefficients.from_np_arrays` (daily/parameters.py:140-271), on top of the GENERATED
  `get_smooth_coeffs`.  Core Lean only.
-/
import EEM.Model.DailyCurve

namespace EEM.Model.Refine
open EEM EEM.Gen EEM.Model EEM.ArithNotation

/-- the five coefficient-name lists -/
inductive CoefId where
  | full7 | full5 | c4 | c3 | one
  deriving DecidableEq, Repr

def CoefId.key : CoefId → ModelKey
  | .full7 => .hdd_tidd_cdd_smooth | .full5 => .hdd_tidd_cdd | .c4 => .c_hdd_tidd_smooth
  | .c3 => .c_hdd_tidd | .one => .tidd

section
variable {α : Type} [Carrier α]

/-- `get_k` -/
def getK (hdd_bp pct_hdd_k cdd_bp pct_cdd_k T_min_seg T_max_seg : α) : Option (List α) :=
  match get_smooth_coeffs hdd_bp pct_hdd_k cdd_bp pct_cdd_k with
  | [hb, hk, cb, ck] =>
    let (hb, hk, cb) :=
      if Arith.geb hdd_bp T_max_seg then
        let hb := hdd_bp
        let hk := (0 : α)
        if Arith.eqb ck 0 && Arith.eqb hk 0 then (hb, hk, hb) else (hb, hk, cb)
      else (hb, hk, cb)
    if Arith.leb cdd_bp T_min_seg then
      let cb := cdd_bp
      let ck := (0 : α)
      if Arith.eqb ck 0 && Arith.eqb hk 0 then some [cb, hk, cb, ck] else some [hb, hk, cb, ck]
    else some [hb, hk, cb, ck]
  | _ => none

/-- `reduce_model` on the 7-vector from `get_full_model_x`; `fuel` bounds the self-recursion
(`hdd_tidd_cdd_smooth` → `c_hdd_tidd_smooth` once). `none` = the Python falls off / raises. -/
def reduceModel : Nat → (hb βh pkh cb βc pkc c T_min_seg T_max_seg : α) → ModelKey → Option (CoefId × List α)
  | 0, _, _, _, _, _, _, _, _, _, _ => none
  | fuel + 1, hb, βh, pkh, cb, βc, pkc, c, tmins, tmaxs, key =>
    if Arith.neb βc 0 && Arith.neb βh 0 && (Arith.neb pkc 0 || Arith.neb pkh 0) then
      some (.full7, [hb, βh, pkh, cb, βc, pkc, c])
    else if Arith.neb βc 0 && Arith.neb βh 0 && Arith.eqb pkc 0 && Arith.eqb pkh 0 then
      some (.full5, [hb, βh, cb, βc, c])
    else if Arith.neb βh 0 && Arith.eqb βc 0 && Arith.neb pkh 0 then
      if key == ModelKey.hdd_tidd_cdd_smooth then
        match getK hb pkh cb pkc tmins tmaxs with
        | some [hb', hk, cb', ck] =>
          if Arith.eqb hk 0 && Arith.eqb ck 0 then
            reduceModel fuel hb' βh hk cb' βc ck c tmins tmaxs ModelKey.c_hdd_tidd_smooth
          else some (.c4, [hb', -βh, hk, c])
        | _ => none
      else some (.c4, [hb, -βh, pkh, c])
    else if Arith.eqb βh 0 && Arith.neb βc 0 && Arith.neb pkc 0 then
      if key == ModelKey.hdd_tidd_cdd_smooth then
        match getK hb pkh cb pkc tmins tmaxs with
        | some [hb', hk, cb', ck] =>
          if Arith.eqb hk 0 && Arith.eqb ck 0 then
            reduceModel fuel hb' βh hk cb' βc ck c tmins tmaxs ModelKey.c_hdd_tidd_smooth
          else some (.c4, [cb', βc, ck, c])
        | _ => none
      else some (.c4, [cb, βc, pkc, c])
    else if Arith.neb βh 0 && Arith.eqb βc 0 && Arith.eqb pkh 0 then
      let hb := if Arith.geb hb tmaxs then tmaxs else hb
      some (.c3, [hb, -βh, c])
    else if Arith.eqb βh 0 && Arith.neb βc 0 && Arith.eqb pkc 0 then
      let cb := if Arith.leb cb tmins then tmins else cb
      some (.c3, [cb, βc, c])
    else if Arith.eqb βc 0 && Arith.eqb βh 0 then
      some (.one, [c])
    else none

/-- `ModelCoefficients.from_np_arrays` -/
def fromNpArrays (ids : CoefId) (x : List α) : Option (Coeffs α) :=
  match ids, x with
  | .full7, [hb, βh, kh, cb, βc, kc, c] =>
    if Arith.ltb cb hb then
      some { model_type := .hdd_tidd_cdd_smooth, intercept := c, hdd_bp := some cb, hdd_beta := some βc,
             hdd_k := some kc, cdd_bp := some hb, cdd_beta := some βh, cdd_k := some kh }
    else
      some { model_type := .hdd_tidd_cdd_smooth, intercept := c, hdd_bp := some hb, hdd_beta := some βh,
             hdd_k := some kh, cdd_bp := some cb, cdd_beta := some βc, cdd_k := some kc }
  | .full5, [hb, βh, cb, βc, c] =>
    if Arith.ltb cb hb then
      some { model_type := .hdd_tidd_cdd, intercept := c, hdd_bp := some cb, hdd_beta := some βc,
             cdd_bp := some hb, cdd_beta := some βh }
    else
      some { model_type := .hdd_tidd_cdd, intercept := c, hdd_bp := some hb, hdd_beta := some βh,
             cdd_bp := some cb, cdd_beta := some βc }
  | .c4, [bp, β, k, c] =>
    if Arith.ltb β 0 then
      some { model_type := .hdd_tidd_smooth, intercept := c, hdd_bp := some bp, hdd_beta := some β, hdd_k := some k }
    else
      some { model_type := .tidd_cdd_smooth, intercept := c, cdd_bp := some bp, cdd_beta := some β, cdd_k := some k }
  | .c3, [bp, β, c] =>
    if Arith.ltb β 0 then
      some { model_type := .hdd_tidd, intercept := c, hdd_bp := some bp, hdd_beta := some β }
    else
      some { model_type := .tidd_cdd, intercept := c, cdd_bp := some bp, cdd_beta := some β }
  | .one, [c] => some { model_type := .tidd, intercept := c }
  | _, _ => none

/-- the 7-vector the optimiser's objective hands to `full_model` for a raw vector of layout `key`
(`evaluate_hdd_tidd_cdd_smooth`, `_hdd_tidd_cdd`, `_c_hdd_tidd_smooth` / `set_full_model_coeffs_smooth`,
`_c_hdd_tidd`, `_tidd`) -/
def scoredX (key : ModelKey) (raw : List α) : Option (List α) :=
  match key, raw with
  | .hdd_tidd_cdd_smooth, [hb, βh, pkh, cb, βc, pkc, c] =>
    match get_smooth_coeffs hb pkh cb pkc with
    | [hb', hk, cb', ck] => some [hb', βh, hk, cb', βc, ck, c]
    | _ => none
  | .hdd_tidd_cdd, [hb, βh, cb, βc, c] => some [hb, βh, 0, cb, βc, 0, c]
  | .c_hdd_tidd_smooth, [bp, β, k, c] =>
    if Arith.ltb β 0 then some [bp, -β, k, bp, 0, 0, c] else some [bp, 0, 0, bp, β, k, c]
  | .c_hdd_tidd, [bp, β, c] =>
    if Arith.ltb β 0 then some [bp, -β, 0, bp, 0, 0, c] else some [bp, 0, 0, bp, β, 0, c]
  | .tidd, [c] => some [0, 0, 0, 0, 0, 0, c]
  | _, _ => none

/-- the value the optimiser scored at temperature `T` -/
def scored (key : ModelKey) (raw : List α) (T_min T_max T : α) : Option α :=
  match scoredX key raw with
  | some [a, b, c, d, e, f, g] => full_model_elem a b c d e f g [T_min, T_max] T
  | _ => none

/-- `OptimizedResult._refine_model` + `ModelCoefficients.from_np_arrays`: the record that is kept -/
def keptRecord (key : ModelKey) (raw : List α) (T_min T_max T_min_seg T_max_seg : α) : Option (Coeffs α) :=
  match get_full_model_x key raw T_min T_max T_min_seg T_max_seg with
  | some [hb, βh, pkh, cb, βc, pkc, c] =>
    match reduceModel 3 hb βh pkh cb βc pkc c T_min_seg T_max_seg key with
    | some (ids, x) => fromNpArrays ids x
    | none => none
  | _ => none

/-- the sub-model that is stored for the component (limits of the fitted days) -/
def keptSubmodel (key : ModelKey) (raw : List α) (T_min T_max T_min_seg T_max_seg : α) : Option (Submodel α) :=
  (keptRecord key raw T_min T_max T_min_seg T_max_seg).map fun c =>
    { coeffs := c, T_min := T_min, T_max := T_max, T_min_seg := T_min_seg, T_max_seg := T_max_seg, f_unc := 0 }

end
end EEM.Model.Refine
