/-
  EEM.Model.Nondet — where a fit can take randomness from.
  (1) `BaseHourlySettings._check_seed` (hourly/settings.py): the effective seed.
  (2) an abstract fit: its random draws are made at a list of sites, each seeded either from the
      settings' effective seed plus an offset, or from the process-global RNG; everything else on
      the fit path is assumed to be a function of (data, settings, the seeds of the draws).
  HAND MODEL (T2: ./check C03 compares `effectiveSeed` with real settings objects).  Core Lean only.
-/
namespace EEM.Model.Nondet

/-- `_check_seed`: `self._seed = np.random.randint(...) if self.seed is None else self.seed` -/
def effectiveSeed (seed : Option Nat) (globalDraw : Nat) : Nat :=
  match seed with
  | none => globalDraw
  | some s => s

inductive Src
  | settings (offset : Nat)   -- random_state = effective seed + offset
  | global                    -- draws from the process-global RNG
  deriving DecidableEq, Repr

structure Site where
  src : Src
  /-- the site is executed only when the user gave no seed (`if self.seed is None`) -/
  onlyWhenSeedNone : Bool
  deriving DecidableEq, Repr

/-- the seeds with which the draws of one fit are made; `g` is the state of the global RNG, which
depends on everything the process did before -/
def siteSeed (seed : Option Nat) (g : Nat) (s : Site) : Option Nat :=
  if s.onlyWhenSeedNone && seed.isSome then none
  else some (match s.src with
    | .settings k => effectiveSeed seed g + k
    | .global => g)

def drawSeeds (sites : List Site) (seed : Option Nat) (g : Nat) : List Nat :=
  sites.filterMap (siteSeed seed g)

/-- a fit whose only access to randomness is through the seeds of its draws -/
def fit {D S M : Type} (core : D → S → List Nat → M) (sites : List Site) (d : D) (s : S) (seed : Option Nat) (g : Nat) : M :=
  core d s (drawSeeds sites seed g)

end EEM.Model.Nondet
