/-
  EEM.Model.Gate — evaluation of the guard sequences of fit()/predict() (C04).  The sequences
  themselves are GENERATED from the source (every top-level `if <test>: raise <Exc>` of the
  method, in order) in `EEM.Gen.Guards`.  Core Lean only.
-/
namespace EEM.Model.Gate

/-- what a guard can look at -/
inductive Atom where
  | fitted | dataDq | modelDq | ignore | rightType | tzEqual | featuresMissing | ghiRequiredMissing
  deriving DecidableEq, Repr

inductive Cond where
  | atom (a : Atom)
  | not (c : Cond)
  | and (c d : Cond)
  deriving Repr

inductive Exc where
  | typeError | runtimeError | valueError | dataSufficiencyError | disqualifiedModelError
  deriving DecidableEq, Repr

/-- a valuation of the atoms -/
structure Env where
  fitted : Bool
  dataDq : Bool
  modelDq : Bool
  ignore : Bool
  rightType : Bool
  tzEqual : Bool
  featuresMissing : Bool
  ghiRequiredMissing : Bool
  deriving DecidableEq, Repr

def Env.get (e : Env) : Atom → Bool
  | .fitted => e.fitted | .dataDq => e.dataDq | .modelDq => e.modelDq | .ignore => e.ignore
  | .rightType => e.rightType | .tzEqual => e.tzEqual | .featuresMissing => e.featuresMissing
  | .ghiRequiredMissing => e.ghiRequiredMissing

def Cond.eval (e : Env) : Cond → Bool
  | .atom a => e.get a
  | .not c => !(c.eval e)
  | .and c d => c.eval e && d.eval e

/-- the first guard whose condition holds raises; `none` = the method proceeds -/
def evalGuards (gs : List (Cond × Exc)) (e : Env) : Option Exc :=
  match gs.find? (fun g => g.1.eval e) with
  | some g => some g.2
  | none => none

/-- all 2⁸ valuations -/
def allEnvs : List Env :=
  let b := [false, true]
  b.flatMap fun a => b.flatMap fun c => b.flatMap fun d => b.flatMap fun f => b.flatMap fun g =>
    b.flatMap fun h => b.flatMap fun i => b.map fun j => ⟨a, c, d, f, g, h, i, j⟩

end EEM.Model.Gate
