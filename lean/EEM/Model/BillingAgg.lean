/-
  EEM.Model.BillingAgg — hand model (T2) of the aggregation block of `BillingModel.predict`
  (billing/model.py:110-152): `resample("MS"/"2MS")` as grouping by local calendar month
  (pairs of months anchored at the first row's month for bi-monthly), `sum` (NaN-skipping,
  0 for an empty or all-NaN period), `mean` (NaN for such a period), root-sum-square,
  argument validation.  Core Lean only; numeric cells over the carrier.
-/
import EEM.Carrier

namespace EEM.Model.BillingAgg
open EEM EEM.ArithNotation

/-- one daily row of the prediction frame; `ym` = 12·year + (month − 1) of the LOCAL date;
`none` = NaN -/
structure DRow (α : Type) where
  ym : Int
  temperature : Option α
  observed : Option α
  predicted : Option α
  unc : Option α
  heating : Option α
  cooling : Option α

/-- one aggregated period -/
structure PRow (α : Type) where
  ym : Int                       -- month index of the period's first month (its label)
  temperature : Option α
  observed : α
  predicted : α
  unc : α
  heating : α
  cooling : α

inductive Agg where
  | none | monthly | bimonthly
  deriving DecidableEq, Repr

/-- the `aggregation` argument: `None`, any casing of "none", exactly "monthly"/"bimonthly";
anything else is a `ValueError` (`Option.none`) -/
def parseAgg (arg : Option String) : Option Agg :=
  match arg with
  | Option.none => some .none
  | some s =>
    if s.toLower == "none" then some .none
    else if s == "monthly" then some .monthly
    else if s == "bimonthly" then some .bimonthly
    else Option.none

section
variable {α : Type} [Carrier α]

def asum : List α → α
  | [] => 0
  | x :: xs => x + asum xs

/-- the non-NaN cells -/
def present (l : List (Option α)) : List α := l.filterMap id

/-- pandas `sum()` (skipna, min_count=0) -/
def nanSum (l : List (Option α)) : α := asum (present l)

/-- pandas `mean()` (skipna; NaN when nothing is present) -/
def nanMean (l : List (Option α)) : Option α :=
  match present l with
  | [] => Option.none
  | xs => some (asum xs / Arith.ofNat xs.length)

/-- `sqrt(sum(square(x)))` through `Series.sum` (skips NaN) -/
def rss (l : List (Option α)) : α := Carrier.sqrt (asum ((present l).map fun x => x * x))

/-- index of the period a month belongs to: `k` months per period, anchored at month `m0` -/
def periodIndex (k : Int) (m0 ym : Int) : Int := (ym - m0) / k

def aggPeriod (k m0 : Int) (rows : List (DRow α)) (p : Nat) : PRow α :=
  let grp := rows.filter fun r => periodIndex k m0 r.ym == (p : Int)
  { ym := m0 + k * p,
    temperature := nanMean (grp.map (·.temperature)),
    observed := nanSum (grp.map (·.observed)),
    predicted := nanSum (grp.map (·.predicted)),
    unc := rss (grp.map (·.unc)),
    heating := nanSum (grp.map (·.heating)),
    cooling := nanSum (grp.map (·.cooling)) }

/-- number of periods: from the first row's month through the last row's month, no gaps -/
def nPeriods (k : Int) (rows : List (DRow α)) : Nat :=
  match rows.head?, rows.getLast? with
  | some r0, some rl => (periodIndex k r0.ym rl.ym).toNat + 1
  | _, _ => 0

/-- `resample(agg)` of a time-sorted frame: one row per period -/
def aggregate (k : Int) (rows : List (DRow α)) : List (PRow α) :=
  match rows.head? with
  | Option.none => []
  | some r0 => (List.range (nPeriods k rows)).map (aggPeriod k r0.ym rows)

def monthsPer : Agg → Int
  | .none => 0 | .monthly => 1 | .bimonthly => 2

end
end EEM.Model.BillingAgg
