/-
  EEM.Model.PredictFrame — hand model (T2) of the frame assembly in `DailyModel._predict` /
  `_initialize_data` (daily/model.py:269-321, 471-525), shared by C05, C06 and C07.

  One input row per timestamp (labels unique, time-sorted: what the data classes hand out).
  A row is *clean* when no cell is NaN and temperature (and observed, if the column exists) is
  finite; clean rows are joined with the prediction of every stored sub-model whose segment
  contains them; all other rows are re-appended without prediction.  The per-row routing
  (`route`) and the per-segment curve (`curve`) are parameters: C13 and C11 are about them.
  Core Lean only.
-/
namespace EEM.Model.PredictFrame

/-- a numeric cell of the frame -/
inductive Cell (α : Type) where
  | nan | inf | fin (v : α)
  deriving Repr

def Cell.isFin {α : Type} : Cell α → Bool
  | .fin _ => true | _ => false
def Cell.isNaN {α : Type} : Cell α → Bool
  | .nan => true | _ => false

structure InRow (α : Type) where
  t : Int                         -- timestamp (label)
  season : String                 -- from the model's own season map of the row's month
  dow : Nat                       -- dayofweek + 1
  temperature : Cell α
  observed : Cell α               -- ignored when the frame has no observed column

structure OutRow (α β : Type) where
  t : Int
  temperature : Cell α
  observed : Cell α
  predicted : Option β            -- `none` = NaN
  split : Option String           -- `model_split`

/-- how the masking statement of `_predict` behaves -/
inductive MaskMode where
  | noOp          -- the chained assignment of the pinned commit: nothing is masked
  | nonFinite     -- observed := NaN on re-appended rows whose temperature is not finite
  | nanOnly       -- observed := NaN only where temperature is NaN
  deriving DecidableEq, Repr

variable {α β : Type}

/-- survives `dropna()` and the `isfinite` filters of `_initialize_data` -/
def isClean (hasObs : Bool) (r : InRow α) : Bool :=
  r.temperature.isFin && (!hasObs || r.observed.isFin)

def maskObserved (m : MaskMode) (r : InRow α) : Cell α :=
  match m with
  | .noOp => r.observed
  | .nonFinite => if r.temperature.isFin then r.observed else .nan
  | .nanOnly => if r.temperature.isNaN then .nan else r.observed

/-- the output rows produced for one input row -/
def outRows (m : MaskMode) (hasObs : Bool) (route : InRow α → List String) (curve : String → α → β)
    (r : InRow α) : List (OutRow α β) :=
  if isClean hasObs r then
    match r.temperature with
    | .fin T =>
      match route r with
      | [] => [{ t := r.t, temperature := r.temperature, observed := r.observed, predicted := none, split := none }]
      | segs => segs.map fun s =>
          { t := r.t, temperature := r.temperature, observed := r.observed, predicted := some (curve s T), split := some s }
    | _ => []     -- unreachable: clean rows have a finite temperature
  else
    [{ t := r.t, temperature := r.temperature,
       observed := if hasObs then maskObserved m r else r.observed, predicted := none, split := none }]

/-- `_predict`: the returned frame, in time order -/
def predictFrame (m : MaskMode) (hasObs : Bool) (route : InRow α → List String) (curve : String → α → β)
    (rows : List (InRow α)) : List (OutRow α β) :=
  rows.flatMap (outRows m hasObs route curve)

end EEM.Model.PredictFrame
