/-
  EEM.Model.HourlyPrep — hand model (T2) of the hourly data classes' preparation of one column
  (hourly/data.py:274-331 `_set_data`, 200-221 `_get_contiguous_datetime`;
  common/hourly_interpolation.py:223-272 `interpolate`), on the contiguous hourly index.

  The VALUES chosen for filled cells (autocorrelation helpers, time interpolation) are outside the
  property and are parameters here (`Proposal`); what is modelled is which cells are kept, filled
  and flagged.  Core Lean only.
-/
namespace EEM.Model.HourlyPrep

variable {α : Type}

/-- a filling stage proposes a value for position `i` (or not) -/
abbrev Proposal (α : Type) := Nat → Option α

/-- a stage that only ever fills currently-missing cells (the autocorrelation rounds fill
`x.loc[nan_series_idx]` only; `interpolate(method="time")` keeps valid cells) -/
def fillAux (p : Proposal α) : Nat → List (Option α) → List (Option α)
  | _, [] => []
  | i, c :: rest => (match c with | some v => some v | none => p i) :: fillAux p (i + 1) rest

def fillWith (p : Proposal α) (col : List (Option α)) : List (Option α) := fillAux p 0 col

/-- `ffill()` with the value carried so far -/
def ffillAux : Option α → List (Option α) → List (Option α)
  | _, [] => []
  | carry, c :: rest =>
    match c with
    | some v => some v :: ffillAux (some v) rest
    | none => carry :: ffillAux carry rest

def ffill (col : List (Option α)) : List (Option α) := ffillAux none col
def bfill (col : List (Option α)) : List (Option α) := (ffill col.reverse).reverse

/-- `interpolate()` for one column: ≤ 10 autocorrelation rounds, time interpolation, ffill, bfill -/
def interpolateCol (rounds : List (Proposal α)) (timeP : Proposal α) (col : List (Option α)) : List (Option α) :=
  bfill (ffill (fillWith timeP (rounds.foldl (fun c p => fillWith p c) col)))

/-- `interpolated_<col>`: was missing and is now present -/
def flags (orig out : List (Option α)) : List Bool :=
  (orig.zip out).map fun (a, b) => a.isNone && b.isSome

/-- electricity: a zero reading is treated as missing (`isZero` decides `== 0`) -/
def zeroToMissing (isZero : α → Bool) (col : List (Option α)) : List (Option α) :=
  col.map fun c => match c with | some v => if isZero v then none else some v | none => none

/-- `remove_duplicates`: keep the first row of each timestamp (input order) -/
def dedupeAux {β : Type} : List Int → List (Int × β) → List (Int × β)
  | _, [] => []
  | seen, (t, v) :: rest => if seen.contains t then dedupeAux seen rest else (t, v) :: dedupeAux (t :: seen) rest
def dedupe {β : Type} (rows : List (Int × β)) : List (Int × β) := dedupeAux [] rows

/-- the contiguous hourly index from `first` to `last` (UTC seconds, both on the hour) -/
def hourlyRange (first last : Int) : List Int :=
  (List.range ((last - first) / 3600 + 1).toNat).map fun (k : Nat) => first + 3600 * (k : Int)

/-- `reindex` onto the range: value of the (deduplicated) row with that stamp, else missing -/
def reindex (rows : List (Int × Option α)) (idx : List Int) : List (Option α) :=
  idx.map fun t => (rows.lookup t).getD none

end EEM.Model.HourlyPrep
