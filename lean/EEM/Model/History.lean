/-
  EEM.Model.History — (1) a generic state/footprint model for operation histories (C02/C03);
  (2) a concrete model of the hourly model's temporal-cluster table across predict() calls
  (hourly/model.py:612-744 `correct_missing_temporal_clusters` and the assignment after it).
  Core Lean only.
-/
namespace EEM.Model.History

/-! ### generic footprint model -/

/-- object state: attribute name ↦ value -/
abbrev State (V : Type) := String → V

/-- an operation with its write footprint -/
structure Op (V : Type) where
  writes : List String
  eff : State V → State V
  /-- the footprint is sound: attributes outside it keep their value -/
  frame : ∀ s a, a ∉ writes → eff s a = s a

def run {V : Type} (ops : List (Op V)) (s : State V) : State V := ops.foldl (fun st op => op.eff st) s

/-! ### the hourly temporal-cluster table -/

/-- (month, day-of-week) ↦ cluster -/
abbrev Table := List ((Nat × Nat) × Nat)

/-- how predict treats the table it looked up -/
inductive Mode where
  | keep          -- the reindexed table is local to the call
  | assignBack    -- the pinned commit: `self._df_temporal_clusters = <table reindexed to the reporting data's pairs>`
  deriving DecidableEq, Repr

/-- reindex to the (month, dow) pairs present in the reporting data; a pair the table does not know
is filled from the nearest known pair in (month, dow) order (stand-in for the ffill/bfill or
nearest-load-shape fill; `none` when the table is empty) -/
def lookup (t : Table) (p : Nat × Nat) : Option Nat :=
  match t.lookup p with
  | some c => some c
  | none => (t.head?).map (·.2)

def reindex (t : Table) (pairs : List (Nat × Nat)) : Table :=
  pairs.filterMap fun p => (lookup t p).map fun c => (p, c)

/-- one predict call: the clusters used for the call, and the table the model holds afterwards -/
def predictStep (m : Mode) (t : Table) (pairs : List (Nat × Nat)) : Table × Table :=
  let used := reindex t pairs
  (used, match m with | .keep => t | .assignBack => used)

/-- a history of predict calls -/
def runTable (m : Mode) (t : Table) : List (List (Nat × Nat)) → Table
  | [] => t
  | p :: rest => runTable m (predictStep m t p).2 rest

end EEM.Model.History
