/-
  EEM.Model.Splits — hand model (T2) of the daily model's split machinery
  (daily/model.py:527-887): component strings, `_meter_segment` routing, `_trim_combinations`,
  `_best_combination`.  The candidate list itself is GENERATED (dumped from the live
  `_combinations`) in `EEM.Gen.SplitCandidates`.  Core Lean only.
-/
import EEM.Carrier

namespace EEM.Model.Splits
open EEM

inductive Season where
  | su | sh | wi
  deriving DecidableEq, Repr

/-- `combo_dictionary["su"/"sh"/"wi"]`: the fixed season names the routing compares with -/
def Season.fullName : Season → String
  | .su => "summer" | .sh => "shoulder" | .wi => "winter"

inductive Pre where
  | fw | wd | we
  deriving DecidableEq, Repr

structure Component where
  pre : Pre
  seasons : List Season
  deriving DecidableEq, Repr

/-! Parsing works on `List Char` with structural recursion only, so that the kernel can
evaluate it on the generated candidate table (`String.splitOn` does not reduce). -/

def parseSeason : List Char → Option Season
  | ['s', 'u'] => some .su | ['s', 'h'] => some .sh | ['w', 'i'] => some .wi | _ => none
def parsePre : List Char → Option Pre
  | ['f', 'w'] => some .fw | ['w', 'd'] => some .wd | ['w', 'e'] => some .we | _ => none

/-- Python `str.split(sep)` for a one-character separator; `acc` is the current piece, reversed -/
def splitChar (sep : Char) : List Char → List Char → List (List Char)
  | acc, [] => [acc.reverse]
  | acc, c :: rest => if c == sep then acc.reverse :: splitChar sep [] rest else splitChar sep (c :: acc) rest

/-- Python `str.split("__")` (left to right, non-overlapping) -/
def splitDU : List Char → List Char → List (List Char)
  | acc, [] => [acc.reverse]
  | acc, '_' :: '_' :: rest => acc.reverse :: splitDU [] rest
  | acc, c :: rest => splitDU (c :: acc) rest

/-- `component[:2]`, `component[3:].split("_")`; `none` = `KeyError` in `combo_dictionary` -/
def parseComponentC (s : List Char) : Option Component := do
  let pre ← parsePre (s.take 2)
  let seasons ← (splitChar '_' [] (s.drop 3)).mapM parseSeason
  some { pre := pre, seasons := seasons }

def parseComponent (s : String) : Option Component := parseComponentC s.toList

def parseCombo (s : String) : Option (List Component) :=
  (splitDU [] s.toList).mapM parseComponentC

/-- a (season, day-type) cell; `true` = weekend -/
abbrev Cell := Season × Bool
def cells : List Cell :=
  [(.su, false), (.su, true), (.sh, false), (.sh, true), (.wi, false), (.wi, true)]

def Component.covers (c : Component) (cell : Cell) : Bool :=
  c.seasons.contains cell.1 && (match c.pre with | .fw => true | .wd => !cell.2 | .we => cell.2)

/-- each of the six cells belongs to exactly one component -/
def exactCover (combo : List Component) : Bool :=
  cells.all fun cell => (combo.filter (·.covers cell)).length == 1

/-- `combo_dictionary["fw"/"wd"/"we"]` from the weekday map (`wmap[d-1]` is the label of
day-of-week `d`, 1 = Monday … 7 = Sunday) -/
def dayList (wmap : List String) : Pre → List Nat
  | .fw => (List.range wmap.length).map (· + 1)
  | .wd => ((List.range wmap.length).filter fun n => wmap.getD n "" == "weekday").map (· + 1)
  | .we => ((List.range wmap.length).filter fun n => wmap.getD n "" == "weekend").map (· + 1)

/-- `_meter_segment`: is a row with this season string and day-of-week in the component? -/
def inSegment (wmap : List String) (c : Component) (season : String) (dow : Nat) : Bool :=
  (c.seasons.map Season.fullName).contains season && (dayList wmap c.pre).contains dow

/-- the components of a stored model that predict a given day (`_predict` joins them: none ⇒
the day gets no prediction, two ⇒ the row is duplicated) -/
def segmentsOf (wmap : List String) (combo : List Component) (season : String) (dow : Nat) :
    List Component :=
  combo.filter fun c => inSegment wmap c season dow

/-! ### `_trim_combinations` -/

structure Allow where
  su : Bool
  sh : Bool
  wi : Bool
  wdwe : Bool
  deriving DecidableEq, Repr

/-- what `_trim_combinations` reads from the baseline frame: rows per season and, per season,
rows whose day-of-week is weekend-listed -/
structure Counts where
  season : Season → Nat
  weekend : Season → Nat

/-- `allow` already combined with the Gaussian filter's verdict (an external parameter) -/
def effectiveAllow (a : Allow) (n : Counts) (minDays : Nat := 30) : Allow :=
  { su := a.su && !(n.season .su < minDays), sh := a.sh && !(n.season .sh < minDays),
    wi := a.wi && !(n.season .wi < minDays), wdwe := a.wdwe }

def banned (a : Allow) : Season → Bool
  | .su => !a.su | .sh => !a.sh | .wi => !a.wi

/-- Python `"wd" in combo` -/
def hasWd : List Char → Bool
  | [] => false
  | 'w' :: 'd' :: _ => true
  | _ :: rest => hasWd rest
def hasSubstrWd (s : String) : Bool := hasWd s.toList

/-- validity of one non-trivial candidate: `split_min_days / 3.75 = 8` weekend-listed days
per component; single-season components must be allowed -/
def validCombo (a : Allow) (n : Counts) (combo : List Component) : Bool :=
  combo.all fun c =>
    !(c.seasons.length == 1 && (c.seasons.any fun s => banned a s))
      && !((c.seasons.map n.weekend).sum < 8)

def keepCombo (a0 : Allow) (n : Counts) (s : String) : Bool :=
  let a := effectiveAllow a0 n
  if s == "fw-su_sh_wi" then true
  else if hasSubstrWd s && !a.wdwe then false
  else match parseCombo s with
    | some combo => validCombo a n combo
    | none => false

def trim (a0 : Allow) (n : Counts) (cands : List String) : List String :=
  cands.filter (keepCombo a0 n)

/-! ### `_best_combination`: strict `<` scan starting from +∞ -/
section best
variable {α : Type} [Arith α]

/-- `none` = the initial `inf` hall-of-fame entry -/
def bestStep (crit : String → α) (hof : Option (String × α)) (c : String) : Option (String × α) :=
  match hof with
  | none => some (c, crit c)           -- `x < inf` (x finite)
  | some (b, v) => if Arith.ltb (crit c) v then some (c, crit c) else some (b, v)

def best (crit : String → α) (cands : List String) : Option String :=
  (cands.foldl (bestStep crit) none).map (·.1)
end best

end EEM.Model.Splits
