/-
  EEM.Model.Window — hand model (T2) of `get_baseline_data` / `get_reporting_data`
  (common/transform.py:192-509) on a time-sorted series.

  A row is `(t, v)`: `t` an instant in integer seconds, `v : Option V` with `none` = "the row
  has a NaN" (what `dropna()` removes).  Label slices on a monotonic index are `takeWhile` /
  `dropWhile`.  `NaT` is `none`.  Core Lean only.
-/
namespace EEM.Model.Window

inductive Err where
  | valueError | noBaselineData | noReportingData
  deriving DecidableEq, Repr

inductive Warn where
  | gapAtEnd | gapAtStart
  deriving DecidableEq, Repr

abbrev Row (V : Type) := Int × Option V

/-- `pytz.UTC.localize(pd.Timestamp.max) - 1 day` and `min + 1 day`, in whole seconds -/
def tsMaxLimit : Int := 9223372036 - 86400
def tsMinLimit : Int := -9223372036 + 86400

def daySecs (n : Int) : Int := n * 86400

variable {V : Type}

/-- `data[:x]` on a sorted index (inclusive) -/
def sliceTo (d : List (Row V)) (x : Int) : List (Row V) := d.takeWhile (fun r => r.1 ≤ x)
/-- `data[x:]` on a sorted index (inclusive) -/
def sliceFrom (d : List (Row V)) (x : Int) : List (Row V) := d.dropWhile (fun r => r.1 < x)

def lastT (d : List (Row V)) : Option Int := d.getLast?.map (·.1)
def firstT (d : List (Row V)) : Option Int := d.head?.map (·.1)

/-- `index.get_indexer([x], method="nearest")[0]`: position of the stamp nearest to `x`,
a tie going to the later stamp; `none` (−1) on an empty index -/
def nearestAux (x : Int) : List Int → Nat → Option (Nat × Nat) → Option (Nat × Nat)
  | [], _, best => best
  | t :: rest, i, best =>
    let dist := (t - x).natAbs
    match best with
    | none => nearestAux x rest (i + 1) (some (i, dist))
    | some (j, bd) =>
      if dist ≤ bd then nearestAux x rest (i + 1) (some (i, dist))   -- later stamp wins ties
      else nearestAux x rest (i + 1) (some (j, bd))

/-- distances are computed in int64 nanoseconds: a stamp further than 2^63 ns from the target
makes pandas raise `OverflowError` / `OutOfBoundsDatetime` -/
def overflows (ts : List Int) (x : Int) : Bool := ts.any fun t => (t - x).natAbs ≥ 9223372037

/-- `none` = the lookup failed (empty index ⇒ `index[-1]` raises `IndexError`; unbounded target ⇒
overflow): the code then falls back to the unrestricted selection -/
def nearest (ts : List Int) (x : Int) : Option Nat :=
  if overflows ts x then none else (nearestAux x ts 0 none).map (·.1)

/-- `frame.iloc[-1] = nan` -/
def blankLast (d : List (Row V)) : List (Row V) :=
  match d.getLast? with
  | none => d
  | some r => d.dropLast ++ [(r.1, none)]

/-- `frame.dropna().empty` -/
def allNull (d : List (Row V)) : Bool := d.all (fun r => r.2.isNone)

structure BaselineArgs where
  start : Option Int := none
  «end» : Option Int := none
  maxDays : Option Int := some 365
  allowOvershoot : Bool := false
  nDaysOvershoot : Option Int := none
  ignoreGap : Bool := false

/-- Python `a < b` with `NaT` on the right: false -/
def ltNaT (a : Int) : Option Int → Bool
  | some b => decide (a < b)
  | none => false

/-- limits after the overshoot options were applied, and the selected rows (before blanking) -/
structure Sel (V : Type) where
  startLimit : Option Int
  endLimit : Option Int
  rows : List (Row V)

def baselineBadArgs (a : BaselineArgs) : Bool := a.maxDays.isSome && a.start.isSome

/-- the end limit actually used: the requested end, or — with
`ignore_billing_period_gap_for_day_count` — the last stamp at or before it -/
def baselineEndLimit (a : BaselineArgs) (d : List (Row V)) : Option Int :=
  let endLimit0 := a.end.getD tsMaxLimit
  let dataEnd := lastT (sliceTo d endLimit0)
  if a.ignoreGap && (match a.nDaysOvershoot with
      | none => true
      | some n => ltNaT (endLimit0 - daySecs n) dataEnd) then dataEnd else some endLimit0

def baselineStartTarget (a : BaselineArgs) (d : List (Row V)) : Option Int :=
  match a.end.isNone, a.maxDays with
  | false, some md => (baselineEndLimit a d).map (· - daySecs md)
  | _, _ => some (a.start.getD tsMinLimit)

def baselineSel (a : BaselineArgs) (d : List (Row V)) : Sel V :=
  let before := sliceTo d (a.end.getD tsMaxLimit)
  let startTarget := baselineStartTarget a d
  if a.allowOvershoot then
    match (startTarget.bind (nearest (before.map (·.1)))).bind (before[·]?) with
    | none => ⟨startTarget, baselineEndLimit a d, before⟩   -- `except (KeyError, IndexError, OverflowError, …)`
    | some r => ⟨some r.1, baselineEndLimit a d, sliceFrom before r.1⟩
  else
    match startTarget with
    | some st => ⟨some st, baselineEndLimit a d, sliceFrom before st⟩
    | none => ⟨none, baselineEndLimit a d, []⟩              -- slicing by NaT: only when `before` is empty

def gapWarnings (startInf endInf : Bool) (d : List (Row V)) (s : Sel V) : List Warn :=
  (match endInf, lastT d, s.endLimit with
    | false, some de, some el => if de < el then [Warn.gapAtEnd] else []
    | _, _, _ => [])
  ++ (match startInf, s.startLimit, firstT d with
    | false, some sl, some ds => if sl < ds then [Warn.gapAtStart] else []
    | _, _, _ => [])

def getBaselineData (a : BaselineArgs) (d : List (Row V)) :
    Except Err (List (Row V) × List Warn) :=
  if baselineBadArgs a then .error .valueError else
  let s := baselineSel a d
  if allNull s.rows then .error .noBaselineData
  else .ok (blankLast s.rows, gapWarnings a.start.isNone a.end.isNone d s)

structure ReportingArgs where
  start : Option Int := none
  «end» : Option Int := none
  maxDays : Option Int := some 365
  allowOvershoot : Bool := false
  ignoreGap : Bool := false

def reportingBadArgs (a : ReportingArgs) : Bool := a.maxDays.isSome && a.end.isSome

/-- the start limit actually used: the requested start, or — with
`ignore_billing_period_gap_for_day_count` — the first stamp at or after it -/
def reportingStartLimit (a : ReportingArgs) (d : List (Row V)) : Option Int :=
  if a.ignoreGap then firstT (sliceFrom d (a.start.getD tsMinLimit)) else some (a.start.getD tsMinLimit)

def reportingEndTarget (a : ReportingArgs) (d : List (Row V)) : Option Int :=
  match a.start.isNone, a.maxDays with
  | false, some md => (reportingStartLimit a d).map (· + daySecs md)
  | _, _ => some (a.end.getD tsMaxLimit)

def reportingSel (a : ReportingArgs) (d : List (Row V)) : Sel V :=
  let after := sliceFrom d (a.start.getD tsMinLimit)
  let endTarget := reportingEndTarget a d
  if a.allowOvershoot then
    match (endTarget.bind (nearest (after.map (·.1)))).bind (after[·]?) with
    | none => ⟨reportingStartLimit a d, endTarget, after⟩
    | some r => ⟨reportingStartLimit a d, some r.1, sliceTo after r.1⟩
  else
    match endTarget with
    | some et => ⟨reportingStartLimit a d, some et, sliceTo after et⟩
    | none => ⟨reportingStartLimit a d, none, []⟩

def getReportingData (a : ReportingArgs) (d : List (Row V)) :
    Except Err (List (Row V) × List Warn) :=
  if reportingBadArgs a then .error .valueError else
  let s := reportingSel a d
  if allNull s.rows then .error .noReportingData
  else .ok (blankLast s.rows, gapWarnings a.start.isNone a.end.isNone d s)

end EEM.Model.Window
