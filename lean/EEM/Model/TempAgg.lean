/-
  EEM.Model.TempAgg — `_compute_temperature_features` of the daily / billing data classes.

  Hourly feed (`compute_temperature_features`, `_matching_groups`): every reading is matched to the
  latest meter-day start at or before it (`merge_asof`, backward), the groups are aggregated
  (`count`, `isnull().sum()`, `mean`), and a day with half or fewer of its readings present is
  blanked.  Other sub-daily feeds (`as_freq(..., "instantaneous", include_coverage=True)`): every
  reading is held until the next timestamp on a one-minute grid, and the minutes of every local
  calendar day are averaged and counted.  HAND MODEL (T2: ./check C09).  No Mathlib imports.
-/
import EEM.Model.Resample

namespace EEM.Model.TempAgg
open EEM.Model.Resample

abbrev Reading := Int × Option Rat

/-- readings whose instant falls in the meter day `[s, e)` -/
def inDay (s e : Int) (rs : List Reading) : List Reading := rs.filter fun r => decide (s ≤ r.1 ∧ r.1 < e)

def presentVals (rs : List Reading) : List Rat := rs.filterMap fun r => r.2
def notNull (rs : List Reading) : Nat := (presentVals rs).length
def null (rs : List Reading) : Nat := (rs.filter fun r => r.2.isNone).length

def mean (xs : List Rat) : Option Rat := if xs = [] then none else some (xs.sum / (xs.length : Rat))

structure DayAgg where
  notNull : Nat
  null : Nat
  temp : Option Rat
  deriving Repr

/-- one meter day of the hourly path: counts, and the mean unless half or fewer are present -/
def hourlyDay (s e : Int) (rs : List Reading) : DayAgg :=
  let d := inDay s e rs
  let nn := notNull d
  let nl := null d
  { notNull := nn, null := nl,
    temp := if 2 * nn ≤ nn + nl then none else mean (presentVals d) }

/-- all meter days: consecutive starts (the last start is the appended buffer day) -/
def hourlyDaily (starts : List Int) (rs : List Reading) : List DayAgg :=
  (days starts).map fun d => hourlyDay d.1 d.2 rs

/-- `Series.median()` of natural numbers, as a rational (mean of the two middle values when even) -/
def insertSorted (x : Nat) : List Nat → List Nat
  | [] => [x]
  | y :: ys => if x ≤ y then x :: y :: ys else y :: insertSorted x ys

def median (xs : List Nat) : Option Rat :=
  let s := xs.foldr insertSorted []
  let n := s.length
  if n = 0 then none
  else if n % 2 = 1 then some (s.getD (n / 2) 0 : Nat)
  else some (((s.getD (n / 2 - 1) 0 : Nat) + (s.getD (n / 2) 0 : Nat) : Rat) / 2)

/-- billing class: a day is also blanked when its present count is at most half the MEDIAN number of
readings per day (rows without any present reading are NaN rows and do not enter the median) -/
def hourlyDailyBilling (starts : List Int) (rs : List Reading) : List DayAgg :=
  let rows := hourlyDaily starts rs
  match median ((rows.filter fun a => a.notNull > 0).map fun a => a.notNull + a.null) with
  | none => rows
  | some med =>
    if med > 1 then rows.map fun a => if (2 * a.notNull : Rat) ≤ med then { a with temp := none } else a
    else rows   -- a feed with one reading per day: the class applies no coverage rule (not reachable from an hourly feed)

/-- `as_freq(..., "instantaneous")`: time-weighted mean over the minutes that carry a value -/
def weighted (d0 d1 : Int) (p : Period) : Rat :=
  match p.v with
  | some v => v * (overlap d0 d1 p.t0 p.t1 : Int)
  | none => 0

def instMean (ps : List Period) (d0 d1 : Int) : Option Rat :=
  if dayCovered ps d0 d1 = 0 then none
  else some ((ps.map (weighted d0 d1)).sum / (dayCovered ps d0 d1 : Rat))

/-- the sub-hourly path of the data classes.  `divideByCoverage` reproduces the pinned code, which
divides the mean by the coverage (copied from the meter path); the repaired code does not. -/
def instDay (divideByCoverage : Bool) (ps : List Period) (d0 d1 : Int) : Option Rat :=
  if coverage ps d0 d1 > 1 / 2 then
    (instMean ps d0 d1).map fun m => if divideByCoverage then m / coverage ps d0 d1 else m
  else none

def instDaily (q : Bool) (rs : List Reading) (bounds : List Int) : List (Option Rat) :=
  (days bounds).map fun d => instDay q (periods rs) d.1 d.2

end EEM.Model.TempAgg
