/-
  EEM.Real — the interpretation theorems are about: `Carrier ℝ` (noncomputable,
  classical decisions) and the bridge simp set `arith_real` turning carrier operations
  on ℝ into Mathlib's.
-/
import EEM.Carrier
import Mathlib.Analysis.SpecialFunctions.Exp
import Mathlib.Analysis.SpecialFunctions.Log.Basic
import Mathlib.Analysis.Real.Sqrt

namespace EEM

noncomputable instance instCarrierReal : Carrier ℝ where
  add := (· + ·)
  sub := (· - ·)
  mul := (· * ·)
  div := (· / ·)
  neg := fun a => -a
  abs := fun a => |a|
  ofNat := fun n => (n : ℝ)
  ofSci := fun m s e => (OfScientific.ofScientific m s e : ℝ)
  eqb := fun a b => decide (a = b)
  ltb := fun a b => decide (a < b)
  leb := fun a b => decide (a ≤ b)
  unbound := (0 : ℝ)
  exp := Real.exp
  log := Real.log
  sqrt := Real.sqrt

namespace RealBridge
section notationBridge
open EEM.ArithNotation

@[simp] theorem add_eq (a b : ℝ) : @HAdd.hAdd ℝ ℝ ℝ (@instHAdd ℝ instAdd) a b = a + b := rfl
@[simp] theorem sub_eq (a b : ℝ) : @HSub.hSub ℝ ℝ ℝ (@instHSub ℝ instSub) a b = a - b := rfl
@[simp] theorem mul_eq (a b : ℝ) : @HMul.hMul ℝ ℝ ℝ (@instHMul ℝ instMul) a b = a * b := rfl
@[simp] theorem div_eq (a b : ℝ) : @HDiv.hDiv ℝ ℝ ℝ (@instHDiv ℝ instDiv) a b = a / b := rfl
@[simp] theorem neg_eq (a : ℝ) : @Neg.neg ℝ instNeg a = -a := rfl
@[simp] theorem ofNat_eq (n : Nat) : @OfNat.ofNat ℝ n (instOfNat n) = (n : ℝ) := rfl
@[simp] theorem ofSci_eq (m : Nat) (s : Bool) (e : Nat) :
    @OfScientific.ofScientific ℝ instOfScientific m s e = (OfScientific.ofScientific m s e : ℝ) := rfl

end notationBridge

@[simp] theorem arith_add (a b : ℝ) : Arith.add a b = a + b := rfl
@[simp] theorem arith_sub (a b : ℝ) : Arith.sub a b = a - b := rfl
@[simp] theorem arith_mul (a b : ℝ) : Arith.mul a b = a * b := rfl
@[simp] theorem arith_div (a b : ℝ) : Arith.div a b = a / b := rfl
@[simp] theorem arith_neg (a : ℝ) : Arith.neg a = -a := rfl
@[simp] theorem arith_abs (a : ℝ) : Arith.abs a = |a| := rfl
@[simp] theorem arith_ofNat (n : Nat) : (Arith.ofNat n : ℝ) = (n : ℝ) := rfl
@[simp] theorem arith_ofSci (m : Nat) (s : Bool) (e : Nat) :
    (Arith.ofSci m s e : ℝ) = (OfScientific.ofScientific m s e : ℝ) := rfl

@[simp] theorem arith_unbound : (Arith.unbound : ℝ) = 0 := rfl
@[simp] theorem ltb_iff (a b : ℝ) : Arith.ltb a b = true ↔ a < b := by simp [Arith.ltb]
@[simp] theorem leb_iff (a b : ℝ) : Arith.leb a b = true ↔ a ≤ b := by simp [Arith.leb]
@[simp] theorem eqb_iff (a b : ℝ) : Arith.eqb a b = true ↔ a = b := by simp [Arith.eqb]
@[simp] theorem gtb_iff (a b : ℝ) : Arith.gtb a b = true ↔ b < a := by simp [Arith.gtb]
@[simp] theorem geb_iff (a b : ℝ) : Arith.geb a b = true ↔ b ≤ a := by simp [Arith.geb]
@[simp] theorem ltb_false_iff (a b : ℝ) : Arith.ltb a b = false ↔ b ≤ a := by
  simp [Arith.ltb]
@[simp] theorem leb_false_iff (a b : ℝ) : Arith.leb a b = false ↔ b < a := by
  simp [Arith.leb]
@[simp] theorem eqb_false_iff (a b : ℝ) : Arith.eqb a b = false ↔ a ≠ b := by
  simp [Arith.eqb]
@[simp] theorem neb_iff (a b : ℝ) : Arith.neb a b = true ↔ a ≠ b := by simp [Arith.neb]
@[simp] theorem carrier_exp (a : ℝ) : Carrier.exp a = Real.exp a := rfl
@[simp] theorem carrier_log (a : ℝ) : Carrier.log a = Real.log a := rfl
@[simp] theorem carrier_sqrt (a : ℝ) : Carrier.sqrt a = Real.sqrt a := rfl

/-- `np.clip` on reals is `min (max x lo) hi`. -/
theorem clip_eq (x lo hi : ℝ) : Arith.clip x lo hi = min (max x lo) hi := by
  unfold Arith.clip
  simp only [ltb_iff]
  by_cases h1 : x < lo
  · simp only [h1, if_true]
    by_cases h2 : hi < lo
    · simp [h2, max_eq_right h1.le, min_eq_right h2.le]
    · simp [h2, max_eq_right h1.le, min_eq_left (not_lt.mp h2)]
  · simp only [h1, if_false]
    by_cases h2 : hi < x
    · simp [h2, max_eq_left (not_lt.mp h1), min_eq_right h2.le]
    · simp [h2, max_eq_left (not_lt.mp h1), min_eq_left (not_lt.mp h2)]

end RealBridge
end EEM
